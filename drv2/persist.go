package drv2

import (
	"bytes"
	"context"
	"fmt"
	"os"
	"strings"
	"time"

	iavl2 "github.com/cosmos/iavl/v2"

	"verif/drv"
	"verif/sim"
)

// errKind classifies a v2 error message (signatures must not contain paths or numbers).
func errKind(err error) string {
	if err == nil {
		return "ok"
	}
	m := err.Error()
	switch {
	case strings.Contains(m, "root not found for version -1"):
		return "no-checkpoint-found"
	case strings.Contains(m, "root not found"):
		return "root-not-found"
	case strings.Contains(m, "sequence mismatch"), strings.Contains(m, "sequence delete mismatch"):
		return "sequence-mismatch"
	case strings.Contains(m, "root hash mismatch"):
		return "replay-hash-mismatch"
	case strings.Contains(m, "node not found"), strings.Contains(m, "failed to get"):
		return "node-not-found"
	case strings.Contains(m, "database is locked"), strings.Contains(m, "database table is locked"):
		return "db-locked"
	case strings.Contains(m, "already exists"):
		return "table-exists"
	case strings.Contains(m, "unordered insert"):
		return "unordered-checkpoint"
	case strings.Contains(m, "replay not yet supported"):
		return "older-snapshot-selected"
	case strings.Contains(m, "no prior snapshot"):
		return "no-snapshot-found"
	case strings.Contains(m, "nil node"):
		return "nil-node"
	case strings.Contains(m, "within a transaction"):
		return "nested-transaction"
	case strings.Contains(m, "no such table"):
		return "no-such-table"
	case strings.Contains(m, "expected a single shard"), strings.Contains(m, "after the first shard"), strings.Contains(m, "sharding is disabled"):
		return "shard-lookup"
	}
	return "other"
}

// closeMain closes the main handle (possibly while a prune is in progress).
func (w *World) closeMain(s drv.Step) {
	if w.H == nil || w.H.tree == nil {
		return
	}
	during := w.H.gate.AnyActive()
	err := w.closeHandle(w.H)
	if during {
		w.P.Inc("close_during_prune")
	}
	w.ev("%d close during-prune=%v err=%v", s.ID, during, err != nil)
	if err != nil {
		w.P.Inc("close_returned_error")
		if during {
			w.setCtx(CtxFailedClose)
		}
	}
}

// demanded reports whether the properties demand version t to be loadable.
func (w *World) demanded(t int64) bool { return t >= w.Floor && t >= 1 && t <= w.M.Latest }

// openMainAt opens a new main handle and loads version t (0 < t).
func (w *World) openMainAt(s drv.Step, t int64, oracle string) *drv.Violation {
	h, err := w.open(w.Dir, true)
	if err != nil {
		return w.viol(oracle, "error-on-legal-request", "open", fmt.Sprintf("NewSqliteDb on an existing directory: %v", err))
	}
	w.H = h
	if w.M.Latest == 0 {
		w.M.Load(0)
		return nil
	}
	err = h.tree.LoadVersion(t)
	w.ev("%d open+load %d err=%v", s.ID, t, err != nil)
	if err != nil {
		c := errKind(err) + "/" + w.loadClass(t)
		if t == w.M.Latest {
			c += "/latest"
		}
		return w.viol(oracle, "load-fails", c, fmt.Sprintf("LoadVersion(%d) after reopen: %v (latest %d, floor %d)", t, err, w.M.Latest, w.Floor))
	}
	w.M.Load(t)
	if _, cps, rerr := RootRows(w.Dir); rerr == nil {
		h.cps = cps
	}
	r := sim.Sub(uint64(s.ID), "reopen", t)
	// a wrong read does not end the run: the handle still continues the history
	v := w.AuditLoaded(h.tree, t, oracle, r, 2)
	w.record(v)
	if v != nil && strings.HasPrefix(v.Class, "replayed-leaf-in-memory/") || v != nil && strings.Contains(v.Class, "]/replayed-leaf-in-memory/") {
		w.setCtx(CtxReplayedLeaf)
	}
	return nil
}

// loadClass classifies a load target by its distance to its checkpoint.
func (w *World) loadClass(t int64) string {
	_, cps, err := RootRows(w.Dir)
	if err != nil {
		return "load"
	}
	c := prevOf(cps, t)
	switch {
	case c < 0:
		return "load-no-checkpoint"
	case c == t:
		return "load-on-checkpoint"
	case t-c == 1:
		return "load-just-after-checkpoint"
	default:
		return "load-far-after-checkpoint"
	}
}

// ApplyReopen closes the main handle and reopens it at the latest version.
func (w *World) ApplyReopen(s drv.Step) *drv.Violation {
	if w.M.Dirty() {
		w.P.Inc("reopen_discards_working")
	}
	w.closeMain(s)
	w.P.Inc("reopen")
	return w.openMainAt(s, w.M.Latest, w.Prop+".reopen")
}

// ApplyLoadOlder closes the main handle and reopens it at an older version; the
// plan continues the history from there.
func (w *World) ApplyLoadOlder(s drv.Step) *drv.Violation {
	t := s.N
	if !w.demanded(t) {
		w.ev("%d load %d skipped (not demanded)", s.ID, t)
		return nil
	}
	w.closeMain(s)
	w.P.Inc("load_older_and_continue")
	return w.openMainAt(s, t, w.Prop+".load")
}

// ApplyLoadAll closes the main handle, loads every version on a fresh handle
// and compares it with the models, then reopens the main handle at the latest.
func (w *World) ApplyLoadAll(s drv.Step) *drv.Violation {
	oracle := w.Prop + ".load"
	w.closeMain(s)
	w.P.Inc("loadall")
	for t := int64(1); t <= w.M.Latest; t++ {
		cls := w.loadClass(t)
		h, err := w.open(w.Dir, false)
		if err != nil {
			return w.viol(oracle, "error-on-legal-request", "open", fmt.Sprintf("NewSqliteDb on an existing directory: %v", err))
		}
		var v *drv.Violation
		func() {
			defer func() { _ = w.closeHandle(h) }()
			demanded := w.demanded(t)
			v = w.guard(oracle, cls, func() *drv.Violation {
				err := h.tree.LoadVersion(t)
				w.ev("%d loadall %d demanded=%v err=%v", s.ID, t, demanded, err != nil)
				if !demanded {
					if err != nil {
						w.P.Inc("load_below_floor_fails")
					} else {
						w.P.Inc("load_below_floor_succeeds")
					}
					return nil
				}
				if err != nil {
					c := errKind(err) + "/" + cls
					if t == w.M.Latest {
						c += "/latest"
					}
					return w.viol(oracle, "load-fails", c, fmt.Sprintf("LoadVersion(%d): %v (latest %d, floor %d)", t, err, w.M.Latest, w.Floor))
				}
				w.P.Inc(strings.ReplaceAll(cls, "-", "_"))
				w.Stats["loads_checked"]++
				return w.AuditLoaded(h.tree, t, oracle, sim.Sub(uint64(s.ID), "loadall", t), 3)
			})
			if v != nil && !demanded {
				// nothing is demanded of a pruned version, not even an orderly error
				w.ev("%d loadall %d not demanded: %s", s.ID, t, v.Symptom)
				w.P.Inc("load_below_floor_panics")
				v = nil
			}
		}()
		// a version that does not load correctly does not end the run
		w.record(v)
	}
	return w.openMainAt(s, w.M.Latest, w.Prop+".reopen")
}

// ApplyPrune sends DeleteVersionsTo(n) to the writer loops; no prune step runs
// before the plan grants it.
func (w *World) ApplyPrune(s drv.Step) *drv.Violation {
	n := s.N
	if n < 1 || n > w.M.Latest {
		w.ev("%d prune %d skipped", s.ID, n)
		return nil
	}
	_, cps, err := RootRows(w.Dir)
	if err != nil {
		return w.viol(w.Prop+".harness", "error", "rootrows", err.Error())
	}
	g := w.H.gate
	if g.AnyActive() {
		w.P.Inc("prune_while_pruning")
	}
	if g.Active(LoopLeaf) && prevOf(w.H.cps, n) == -1 {
		// v2/sqlite_writer.go leafLoop: when the queued request has no checkpoint
		// at or below it, startPrune returns early and leaves pruneVersion set with
		// a nil orphanQuery; the next prune step dereferences it in the loop's
		// goroutine. The marker gives that process death a signature of its own.
		w.P.Inc("prune_below_first_checkpoint_while_pruning")
		fmt.Fprintf(os.Stderr, "fatal error: verif-queued-prune-below-first-checkpoint (leaf loop keeps pruning with a nil orphan query)\n")
	}
	g.expectPrune()
	g.announce()
	err = w.H.tree.DeleteVersionsTo(n)
	g.settle()
	c := prevOf(cps, n)
	w.ev("%d prune %d err=%v checkpoint=%d leaf-active=%v tree-active=%v", s.ID, n, err != nil, c, g.Active(LoopLeaf), g.Active(LoopTree))
	if err != nil {
		return w.viol(w.Prop+".step", "error-on-legal-request", "prune", fmt.Sprintf("DeleteVersionsTo(%d): %v", n, err))
	}
	w.P.Inc("prune")
	if c > w.Floor {
		w.Floor = c
	}
	if n == w.M.Latest {
		w.P.Inc("prune_to_latest")
	}
	return nil
}

// ApplyGrant lets one writer loop execute prune steps.
func (w *World) ApplyGrant(s drv.Step) *drv.Violation {
	loop := s.Codec
	if loop != LoopLeaf && loop != LoopTree {
		return nil
	}
	g := w.H.gate
	if !g.Active(loop) {
		w.ev("%d grant %s %d: idle", s.ID, loop, s.N)
		return nil
	}
	steps, idle := g.grant(loop, int(s.N))
	w.ev("%d grant %s %d -> steps=%d idle=%v", s.ID, loop, s.N, steps, idle)
	w.Stats["prune_steps"] += steps
	if idle {
		w.P.Inc("prune_completed_" + loop)
	} else {
		w.P.Inc("prune_partial_" + loop)
	}
	return nil
}

// ApplySnapshot takes a snapshot of the current committed version and imports
// it into a fresh tree.
func (w *World) ApplySnapshot(s drv.Step) *drv.Violation {
	oracle := w.Prop + ".snapshot"
	ver := w.M.Cur
	if w.M.Dirty() || ver == 0 || w.H.gate.AnyActive() {
		w.ev("%d snapshot skipped", s.ID)
		return nil
	}
	empty := w.M.Cont[ver].Len() == 0
	suffix := ""
	if empty {
		suffix = "-empty-tree"
		w.P.Inc("snapshot_of_empty_tree")
	}
	r := sim.Sub(uint64(s.ID), "snapshot", ver)
	switch s.Codec {
	case "save":
		if w.snapshotted[ver] {
			w.ev("%d snapshot skipped (exists)", s.ID)
			return nil
		}
		w.snapshotted[ver] = true
		w.P.Inc("snapshot_save")
		err := w.H.tree.SaveSnapshot()
		w.ev("%d SaveSnapshot v=%d err=%v", s.ID, ver, err != nil)
		if err != nil {
			return w.viol(oracle, "error-on-legal-request", "SaveSnapshot"+suffix+"/"+errKind(err), fmt.Sprintf("SaveSnapshot at version %d: %v", ver, err))
		}
		w.closeMain(s)
		h, err := w.open(w.Dir, false)
		if err != nil {
			return w.viol(oracle, "error-on-legal-request", "open", err.Error())
		}
		var v *drv.Violation
		func() {
			defer func() { _ = w.closeHandle(h) }()
			v = w.guard(oracle, "LoadSnapshot"+suffix, func() *drv.Violation {
				err := h.tree.LoadSnapshot(ver, iavl2.PreOrder)
				w.ev("%d LoadSnapshot v=%d err=%v", s.ID, ver, err != nil)
				if err != nil {
					return w.viol(oracle, "load-fails", "LoadSnapshot"+suffix+"/"+errKind(err), fmt.Sprintf("LoadSnapshot(%d, PreOrder): %v", ver, err))
				}
				if vv := w.AuditTree(h.tree, ver, oracle, r, 3); vv != nil {
					vv.Class = "LoadSnapshot/" + vv.Class
					return vv
				}
				return nil
			})
		}()
		if v != nil {
			return v
		}
		return w.openMainAt(s, w.M.Latest, w.Prop+".reopen")
	case "export-pre", "export-post":
		order := iavl2.PreOrder
		name := "pre"
		if s.Codec == "export-post" {
			order = iavl2.PostOrder
			name = "post"
		}
		w.P.Inc("snapshot_" + name)
		if empty {
			// Export(nil root) panics in the exporter goroutine, which ends the
			// process. The marker gives that death a signature of its own (the
			// coordinator classifies a dead process by its stderr).
			fmt.Fprintf(os.Stderr, "fatal error: verif-export-%s-of-empty-tree (nil root: the exporter goroutine is expected to panic)\n", name)
		}
		dir, err := w.mkdir()
		if err != nil {
			return w.viol(w.Prop+".harness", "error", "mkdir", err.Error())
		}
		if empty {
			// Export(nil root): the exporter goroutine panics (post-order at once,
			// pre-order after its first send has been received, by which time this
			// goroutine has panicked in Exporter.Next and recovered). Wait for the
			// process to die so that the outcome does not depend on scheduling.
			defer time.Sleep(2 * time.Second)
		}
		return w.guard(oracle, "export-"+name+suffix, func() *drv.Violation {
			pool := iavl2.NewNodePool()
			sql2, err := iavl2.NewSqliteDb(pool, iavl2.SqliteDbOptions{Path: dir, MmapSize: 1 << 20, ShardTrees: w.Opts.ShardTrees})
			if err != nil {
				return w.viol(oracle, "error-on-legal-request", "open", err.Error())
			}
			tree2 := iavl2.NewTree(sql2, pool, w.treeOptions())
			defer func() { _ = tree2.Close() }()
			exp := w.H.tree.Export(order)
			if empty {
				// the exporter goroutine panics while this goroutine could still run
				// for a moment: let the process die (deterministic outcome)
				time.Sleep(2 * time.Second)
			}
			root, err := sql2.WriteSnapshot(context.Background(), ver, exp.Next, iavl2.SnapshotOptions{StoreLeafValues: true, WriteCheckpoint: true, TraverseOrder: order})
			w.ev("%d WriteSnapshot %s v=%d err=%v", s.ID, name, ver, err != nil)
			if err != nil {
				return w.viol(oracle, "error-on-legal-request", "WriteSnapshot-"+name+suffix+"/"+errKind(err), fmt.Sprintf("Export(%s)+WriteSnapshot(%d): %v", name, ver, err))
			}
			var rh []byte
			if root != nil {
				rh = root.GetHash()
			}
			w.ev("%d WriteSnapshot root=%x", s.ID, rh)
			if !bytes.Equal(rh, w.M.Hash[ver]) {
				return w.viol(oracle, "hash-mismatch", "WriteSnapshot-"+name+suffix, fmt.Sprintf("WriteSnapshot(%d, %s) root hash %x want %x", ver, name, rh, w.M.Hash[ver]))
			}
			iroot, err := sql2.ImportSnapshotFromTable(ver, order, true)
			w.ev("%d ImportSnapshotFromTable err=%v", s.ID, err != nil)
			if err != nil {
				return w.viol(oracle, "load-fails", "ImportSnapshotFromTable-"+name+suffix+"/"+errKind(err), fmt.Sprintf("ImportSnapshotFromTable(%d, %s): %v", ver, name, err))
			}
			if iroot == nil || !bytes.Equal(iroot.GetHash(), w.M.Hash[ver]) {
				return w.viol(oracle, "hash-mismatch", "ImportSnapshotFromTable-"+name+suffix, fmt.Sprintf("ImportSnapshotFromTable(%d, %s) root hash mismatch, want %x", ver, name, w.M.Hash[ver]))
			}
			if err := tree2.LoadSnapshot(ver, order); err != nil {
				return w.viol(oracle, "load-fails", "LoadSnapshot-"+name+suffix+"/"+errKind(err), fmt.Sprintf("LoadSnapshot(%d, %s) of an imported snapshot: %v", ver, name, err))
			}
			if vv := w.AuditTree(tree2, ver, oracle, r, 3); vv != nil {
				vv.Class = "import-" + name + "/" + vv.Class
				return vv
			}
			return nil
		})
	}
	return nil
}

// AuditLoaded audits a tree obtained by LoadVersion(t) and classifies a wrong
// read: <what>/<where>, prefixed by replayed-leaf-in-memory when the key was
// written after t's checkpoint and its leaf stays in memory (HeightFilter 0, or
// the leaf is the root), i.e. the leaf read is the one the change-log replay
// produced and not one read from storage.
func (w *World) AuditLoaded(t *iavl2.Tree, ver int64, oracle string, r *sim.Rand, nPairs int) *drv.Violation {
	v := w.AuditTree(t, ver, oracle, r, nPairs)
	if v == nil {
		return nil
	}
	where := w.loadClass(ver)
	cls := v.Class + "/" + where
	if w.lastBadKey != nil && (w.Opts.HeightFilter == 0 || w.M.Cont[ver].Len() == 1) {
		_, cps, err := RootRows(w.Dir)
		if err == nil {
			c := prevOf(cps, ver)
			for u := c + 1; u <= ver && c >= 0; u++ {
				if w.WrittenIn[u][string(w.lastBadKey)] {
					cls = "replayed-leaf-in-memory/" + cls
					break
				}
			}
		}
	}
	v.Class = cls
	return v
}
