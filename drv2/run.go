package drv2

import (
	"verif/drv"
)

// Result of one run.
type Result struct {
	W     *World
	Vio   *drv.Violation // the violation that ended the run (nil: ran to the end)
	Steps int
}

// Violations returns all violations of the run: recorded ones first.
func (r *Result) Violations() []*drv.Violation {
	var out []*drv.Violation
	if r.W != nil {
		out = append(out, r.W.Vios...)
	}
	if r.Vio != nil {
		out = append(out, r.Vio)
	}
	return out
}

// Run executes the steps of a plan. Every subsequence of a generated plan is
// executable: steps that do not apply are skipped. after runs after every
// applied step.
func Run(p *drv.Plan, prop string, withV1 bool, after func(w *World, s drv.Step) *drv.Violation) *Result {
	res := &Result{}
	w, err := NewWorld(prop, GetOpts(p), withV1)
	if err != nil {
		res.Vio = &drv.Violation{Prop: prop, Oracle: prop + ".harness", Symptom: "error", Class: "open", Detail: err.Error()}
		if w != nil {
			w.Cleanup()
		}
		return res
	}
	res.W = w
	w.ev("opts %s", w.Opts.String())
	for _, s := range p.Steps {
		if w.Ended {
			break
		}
		s := s
		w.curStep = s.ID
		v := w.guard(prop+".step", s.Op, func() *drv.Violation { return w.apply(s) })
		res.Steps++
		if v == nil && after != nil && !w.Ended {
			v = w.guard(prop+".reads", "after-"+s.Op, func() *drv.Violation { return after(w, s) })
		}
		if v != nil {
			w.Finalize(v)
			w.ev("violation %s", v.Sig())
			res.Vio = v
			break
		}
	}
	return res
}

func (w *World) apply(s drv.Step) *drv.Violation {
	switch s.Op {
	case drv.OpSet, drv.OpRemove:
		return w.ApplyWrite(s)
	case drv.OpSave:
		return w.ApplySave(s)
	case drv.OpReopen:
		return w.ApplyReopen(s)
	case drv.OpLoad:
		return w.ApplyLoadOlder(s)
	case OpLoadAll:
		return w.ApplyLoadAll(s)
	case drv.OpPrune:
		return w.ApplyPrune(s)
	case OpGrant:
		return w.ApplyGrant(s)
	case OpSnapshot:
		return w.ApplySnapshot(s)
	}
	w.ev("%d %s skipped (unknown op)", s.ID, s.Op)
	return nil
}

// CommitAfterEvictingCheckpoint reports whether a commit was made after a
// checkpoint at which branch nodes existed and nodes were dropped from memory.
func (w *World) CommitAfterEvictingCheckpoint() bool {
	_, cps, err := RootRows(w.Dir)
	if err != nil {
		return false
	}
	for _, c := range cps {
		m := w.M.Cont[c]
		if m == nil || m.Len() < 2 || c >= w.M.Latest {
			continue
		}
		if w.Opts.HeightFilter > 0 || int(w.Opts.EvictionDepth) < int(w.M.Height[c]) {
			return true
		}
	}
	return false
}
