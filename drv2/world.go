package drv2

import (
	"bytes"
	"crypto/sha256"
	"encoding/hex"
	"encoding/json"
	"fmt"
	"hash"
	"os"
	"path/filepath"
	"runtime/debug"
	"sort"
	"strings"
	"sync"
	"time"

	"github.com/bvinc/go-sqlite-lite/sqlite3"
	iavl1 "github.com/cosmos/iavl"
	iavl2 "github.com/cosmos/iavl/v2"
	"github.com/cosmos/iavl/v2/metrics"

	"verif/drv"
	"verif/ref"
	"verif/sim"
)

// Step op codes of the v2 engine (in addition to drv.OpSet/OpRemove/OpSave/
// OpReopen/OpPrune/OpLoad).
const (
	OpGrant    = "v2.grant"    // Codec = loop ("leaf"|"tree"), N = prune steps (-1 = until idle)
	OpLoadAll  = "v2.loadall"  // close; LoadVersion(t) on a fresh handle for every version; reopen at latest
	OpSnapshot = "v2.snapshot" // Codec = "save" | "export-pre" | "export-post"
)

// Opts are the v2 options of a run (TreeOptions + SqliteDbOptions). Leaf values
// are always stored (StateStorage = true), as the properties require.
type Opts struct {
	CheckpointInterval int64  `json:"checkpoint_interval"`
	CheckpointMemory   uint64 `json:"checkpoint_memory,omitempty"`
	HeightFilter       int8   `json:"height_filter"`
	EvictionDepth      int8   `json:"eviction_depth"`
	ShardTrees         bool   `json:"shard_trees,omitempty"`
}

func (o Opts) String() string {
	return fmt.Sprintf("v2{ci=%d cm=%d hf=%d ed=%d shard=%v}", o.CheckpointInterval, o.CheckpointMemory, o.HeightFilter, o.EvictionDepth, o.ShardTrees)
}

// DrawOpts draws an option combination.
func DrawOpts(r *sim.Rand) Opts {
	return Opts{
		CheckpointInterval: int64(r.Pick(1, 2, 2, 3, 3, 7, 1000)),
		CheckpointMemory:   uint64(r.Pick(0, 0, 0, 1)),
		HeightFilter:       int8(r.Pick(0, 0, 1, 1, 2, 3)), // any value > 0 means: leaves are not kept in memory (seed C19-3A reads it as a real height)
		EvictionDepth:      int8(r.Pick(-1, 0, 1, 2, 8, 127)),
		ShardTrees:         r.Chance(1, 2),
	}
}

// PutOpts stores the options in the plan: in Extra["v2opts"] and, because the
// coordinator clears Extra before minimising / re-executing a plan
// (checks/shrink.go), also in Mode.
func PutOpts(p *drv.Plan, o Opts) {
	if p.Extra == nil {
		p.Extra = drv.Extra{}
	}
	b, _ := json.Marshal(o)
	p.Extra["v2opts"] = b
	p.Mode = "v2opts:" + string(b)
}

// GetOpts reads the options of a plan (v2 defaults when absent).
func GetOpts(p *drv.Plan) Opts {
	o := Opts{CheckpointInterval: 1000, HeightFilter: 1, EvictionDepth: -1}
	if p.Extra != nil {
		if b, ok := p.Extra["v2opts"]; ok {
			if json.Unmarshal(b, &o) == nil {
				return o
			}
		}
	}
	if strings.HasPrefix(p.Mode, "v2opts:") {
		_ = json.Unmarshal([]byte(strings.TrimPrefix(p.Mode, "v2opts:")), &o)
	}
	return o
}

// Compact renders a plan on one line.
func Compact(p *drv.Plan) string {
	parts := make([]string, 0, len(p.Steps))
	for _, s := range p.Steps {
		parts = append(parts, s.String())
	}
	return GetOpts(p).String() + " " + strings.Join(parts, " | ")
}

// Model is R1 (contents per version) + R2 (canonical tree and hashes) with the
// bookkeeping v2 needs: versions can be re-committed after loading an older one.
type Model struct {
	Work    *ref.SMap
	T       *ref.Tree
	Cont    map[int64]*ref.SMap
	Hash    map[int64][]byte
	Height  map[int64]int8
	Latest  int64
	Cur     int64
	Touched map[string]bool
}

func newModel() *Model {
	return &Model{Work: ref.NewSMap(), T: ref.NewTree(), Cont: map[int64]*ref.SMap{}, Hash: map[int64][]byte{}, Height: map[int64]int8{}, Touched: map[string]bool{}}
}

// Dirty reports whether the working state has uncommitted writes.
func (m *Model) Dirty() bool { return len(m.Touched) > 0 }

// Load makes v the base of the working state.
func (m *Model) Load(v int64) {
	m.Cur = v
	if c, ok := m.Cont[v]; ok {
		m.Work = c.Clone()
	} else {
		m.Work = ref.NewSMap()
	}
	m.T.Load(v)
	m.Touched = map[string]bool{}
}

// handle is one open v2 database handle.
type handle struct {
	dir  string
	pool *iavl2.NodePool
	sql  *iavl2.SqliteDb
	tree *iavl2.Tree
	gate *Gate
	wid  any
	// cps mirrors the handle's in-memory checkpoint list: the checkpoint rows
	// at LoadVersion time plus the checkpoints committed through the handle.
	cps []int64
}

// World is one v2 database in lock-step with the models (and v1 for C19).
type World struct {
	Prop string
	Opts Opts
	Dir  string
	H    *handle
	V1   *iavl1.MutableTree
	M    *Model

	Universe map[string]bool
	P        drv.Probes
	Stats    map[string]int
	Vios     []*drv.Violation
	seen     map[string]bool

	// Floor is the lowest version the properties still demand to be loadable
	// (raised by DeleteVersionsTo to the last checkpoint not after n).
	Floor int64
	// LostRisk: versions committed while a tree prune transaction was open.
	dirs    []string
	curStep int
	log     hash.Hash
	text    *strings.Builder
	t0      time.Time
	Commits int
	Ended   bool // the plan stopped being applicable (shrunk plan); no further steps

	snapshotted map[int64]bool
	// WrittenIn[v] = keys written or removed while building version v.
	WrittenIn  map[int64]map[string]bool
	lastBadKey []byte
	// Ctx holds the scenario contexts of the run that are known to break v2
	// (root-cause tags); they prefix the class of every later violation so that
	// consequences of one defect are not mistaken for another.
	Ctx map[string]bool
}

// NewWorld creates the scratch directory and opens the first handle.
func NewWorld(prop string, o Opts, withV1 bool) (*World, error) {
	w := &World{Prop: prop, Opts: o, M: newModel(), Universe: map[string]bool{}, P: drv.Probes{}, Stats: map[string]int{}, seen: map[string]bool{}, log: sha256.New(), snapshotted: map[int64]bool{}, WrittenIn: map[int64]map[string]bool{}, Ctx: map[string]bool{}}
	if os.Getenv("VERIF_TRACE_TEXT") != "" {
		w.text = &strings.Builder{}
		w.t0 = time.Now()
	}
	dir, err := w.mkdir()
	if err != nil {
		return nil, err
	}
	w.Dir = dir
	if withV1 {
		w.V1 = iavl1.NewMutableTree(sim.NewSimDB(), 0, false, iavl1.NewNopLogger())
		if _, err := w.V1.Load(); err != nil {
			return nil, err
		}
	}
	h, err := w.open(dir, true)
	if err != nil {
		return nil, err
	}
	w.H = h
	if o.ShardTrees {
		w.P.Inc("sharded")
	} else {
		w.P.Inc("unsharded")
	}
	return w, nil
}

var sweepOnce sync.Once

// sweepStale removes scratch directories left behind by processes that v2
// ended (os.Exit in a writer loop, panic in an exporter goroutine): a run lasts
// at most two minutes, anything older than ten is garbage.
func sweepStale() {
	ents, err := os.ReadDir(drv.Scratch())
	if err != nil {
		return
	}
	for _, e := range ents {
		if !e.IsDir() || !strings.HasPrefix(e.Name(), "verif-v2-") {
			continue
		}
		if info, err := e.Info(); err == nil && time.Since(info.ModTime()) > 10*time.Minute {
			_ = os.RemoveAll(filepath.Join(drv.Scratch(), e.Name()))
		}
	}
}

func (w *World) mkdir() (string, error) {
	sweepOnce.Do(sweepStale)
	dir, err := os.MkdirTemp(drv.Scratch(), "verif-v2-")
	if err != nil {
		return "", err
	}
	w.dirs = append(w.dirs, dir)
	return dir, nil
}

func (w *World) treeOptions() iavl2.TreeOptions {
	return iavl2.TreeOptions{
		CheckpointInterval: w.Opts.CheckpointInterval,
		CheckpointMemory:   w.Opts.CheckpointMemory,
		StateStorage:       true,
		HeightFilter:       w.Opts.HeightFilter,
		EvictionDepth:      w.Opts.EvictionDepth,
		MetricsProxy:       metrics.NilMetrics{},
	}
}

// open creates a SqliteDb + Tree on dir. gated handles have their writer loops
// driven by a Gate.
func (w *World) open(dir string, gated bool) (*handle, error) {
	pool := iavl2.NewNodePool()
	sql, err := iavl2.NewSqliteDb(pool, iavl2.SqliteDbOptions{Path: dir, MmapSize: 1 << 20, ShardTrees: w.Opts.ShardTrees})
	if err != nil {
		return nil, err
	}
	tree := iavl2.NewTree(sql, pool, w.treeOptions())
	h := &handle{dir: dir, pool: pool, sql: sql, tree: tree}
	if gated {
		h.gate = newGate()
		h.wid = iavl2.VerifWriterOf(tree)
		gates.Store(h.wid, h.gate)
	}
	w.Stats["opens"]++
	return h, nil
}

// closeHandle closes a handle; it returns Close's error.
func (w *World) closeHandle(h *handle) error {
	if h == nil || h.tree == nil {
		return nil
	}
	if h.gate != nil {
		h.gate.shut()
	}
	err := h.tree.Close()
	h.tree = nil
	if h.gate != nil {
		gates.Delete(h.wid)
	}
	return err
}

// Cleanup closes everything and removes the scratch directories.
func (w *World) Cleanup() {
	func() {
		defer func() { _ = recover() }()
		_ = w.closeHandle(w.H)
	}()
	w.H = nil
	if w.V1 != nil {
		_ = w.V1.Close()
		w.V1 = nil
	}
	for _, d := range w.dirs {
		_ = os.RemoveAll(d)
	}
	w.dirs = nil
}

// ---- event log

func (w *World) ev(format string, args ...interface{}) {
	line := fmt.Sprintf(format, args...)
	w.log.Write([]byte(line))
	w.log.Write([]byte{'\n'})
	if w.text != nil {
		fmt.Fprintf(w.text, "[%6.1fms] ", float64(time.Since(w.t0).Microseconds())/1000)
		w.text.WriteString(line)
		w.text.WriteByte('\n')
	}
}

// Trace returns the digest of the event log.
func (w *World) Trace() string {
	if w.text != nil {
		_ = os.WriteFile(filepath.Join(os.TempDir(), fmt.Sprintf("verif-trace-%s-%d.txt", w.Prop, os.Getpid())), []byte(w.text.String()), 0o644)
	}
	return hex.EncodeToString(w.log.Sum(nil)[:16])
}

// ---- violations

func (w *World) viol(oracle, symptom, class, detail string) *drv.Violation {
	for _, d := range w.dirs {
		detail = strings.ReplaceAll(detail, d, "<scratch>")
	}
	return &drv.Violation{Prop: w.Prop, Oracle: oracle, Symptom: symptom, Class: class, Detail: detail, StepID: w.curStep}
}

// Context names, in the order they are rendered.
const (
	CtxRewroteCheckpoint = "rewrote-checkpoint"   // an older version was loaded and a checkpoint version was committed again
	CtxRootInPruneTx     = "root-in-prune-tx"     // a version was committed while the tree prune transaction was open
	CtxFailedClose       = "failed-close"         // Close during an unfinished prune returned an error
	CtxReplayedLeaf      = "replayed-leaf-handle" // the main handle holds leaves produced by the change-log replay
)

var ctxOrder = []string{CtxRewroteCheckpoint, CtxRootInPruneTx, CtxFailedClose, CtxReplayedLeaf}

func (w *World) setCtx(name string) {
	if !w.Ctx[name] {
		w.Ctx[name] = true
		w.P.Inc("ctx_" + name)
		w.ev("ctx %s", name)
	}
}

// Finalize prefixes the class of a violation with the contexts of the run.
func (w *World) Finalize(v *drv.Violation) *drv.Violation {
	if v == nil || strings.HasPrefix(v.Class, "ctx[") || strings.HasSuffix(v.Oracle, ".empty-tree") || strings.HasSuffix(v.Oracle, ".remove-result") {
		return v
	}
	var cs []string
	for _, c := range ctxOrder {
		if !w.Ctx[c] {
			continue
		}
		// a context only explains the symptoms its defect can cause
		switch c {
		case CtxReplayedLeaf:
			if v.Symptom != "wrong-value" && v.Symptom != "hash-mismatch" {
				continue
			}
		case CtxFailedClose:
			if !strings.Contains(v.Class, "db-locked") {
				continue
			}
		case CtxRootInPruneTx:
			if !strings.Contains(v.Class, "root-not-found") && !strings.Contains(v.Class, "no-checkpoint-found") {
				continue
			}
		}
		cs = append(cs, c)
	}
	if len(cs) > 0 {
		v.Class = "ctx[" + strings.Join(cs, ",") + "]/" + v.Class
	}
	return v
}

// record keeps a violation that does not end the run (one per signature).
func (w *World) record(v *drv.Violation) {
	if v == nil {
		return
	}
	w.Finalize(v)
	if w.seen[v.Sig()] {
		return
	}
	w.seen[v.Sig()] = true
	w.Vios = append(w.Vios, v)
	w.ev("violation %s", v.Sig())
}

// panicSite extracts the innermost v2 (or v1) frame of a panic stack.
func panicSite(stack []byte) string {
	for _, l := range strings.Split(string(stack), "\n") {
		if strings.HasPrefix(l, "github.com/cosmos/iavl") {
			name := l
			if i := strings.LastIndex(name, "("); i > 0 {
				name = name[:i]
			}
			name = name[strings.LastIndex(name, "/")+1:]
			name = strings.ReplaceAll(name, "(*", "")
			name = strings.ReplaceAll(name, ")", "")
			return name
		}
	}
	return ""
}

// guard runs f, converting a panic into a violation.
func (w *World) guard(oracle, class string, f func() *drv.Violation) (v *drv.Violation) {
	defer func() {
		if r := recover(); r != nil {
			st := debug.Stack()
			v = w.viol(oracle, "panic", class, fmt.Sprintf("panic: %v", r))
			v.Site = panicSite(st)
			v.Detail += "\n" + trimStack(st)
		}
	}()
	return f()
}

func trimStack(st []byte) string {
	lines := strings.Split(string(st), "\n")
	var out []string
	for _, l := range lines {
		if strings.Contains(l, "cosmos/iavl") {
			out = append(out, strings.TrimSpace(l))
			if len(out) >= 12 {
				break
			}
		}
	}
	return strings.Join(out, "\n")
}

// ---- write steps

func (w *World) addKey(k []byte) {
	if len(k) > 0 {
		w.Universe[string(k)] = true
	}
}

// ApplyWrite executes a set / remove step on all trees. Normal form: the second
// write of a key within one version is skipped on all trees.
func (w *World) ApplyWrite(s drv.Step) *drv.Violation {
	if len(s.K) == 0 || (s.Op == drv.OpSet && s.V == nil) {
		w.ev("%d %s skip-invalid", s.ID, s.Op)
		return nil
	}
	if w.M.Touched[string(s.K)] {
		w.ev("%d %s %x skip-normal-form", s.ID, s.Op, []byte(s.K))
		return nil
	}
	w.M.Touched[string(s.K)] = true
	w.addKey(s.K)
	t := w.H.tree
	switch s.Op {
	case drv.OpSet:
		upd, err := t.Set(append([]byte{}, s.K...), append([]byte{}, s.V...))
		if err != nil {
			return w.viol(w.Prop+".step", "error-on-legal-request", "set", fmt.Sprintf("v2 Set(%x): %v", []byte(s.K), err))
		}
		want := w.M.Work.Set(s.K, s.V)
		w.M.T.Set(s.K, s.V)
		w.ev("%d set %x=%x upd=%v", s.ID, []byte(s.K), []byte(s.V), upd)
		if w.V1 != nil {
			u1, err := w.V1.Set(s.K, s.V)
			if err != nil {
				return w.viol(w.Prop+".step", "error-on-legal-request", "v1-set", fmt.Sprintf("v1 Set(%x): %v", []byte(s.K), err))
			}
			if u1 != want {
				return w.viol(w.Prop+".v1", "wrong-value", "v1-updated-flag", fmt.Sprintf("v1 Set(%x) updated=%v, model %v", []byte(s.K), u1, want))
			}
		}
		if upd != want {
			return w.viol(w.Prop+".set-result", "wrong-value", "updated-flag", fmt.Sprintf("v2 Set(%x) updated=%v want %v", []byte(s.K), upd, want))
		}
	case drv.OpRemove:
		val, rem, err := t.Remove(append([]byte{}, s.K...))
		if err != nil {
			return w.viol(w.Prop+".step", "error-on-legal-request", "remove", fmt.Sprintf("v2 Remove(%x): %v", []byte(s.K), err))
		}
		wv, wr := w.M.Work.Delete(s.K)
		w.M.T.Remove(s.K)
		w.ev("%d remove %x -> %x %v", s.ID, []byte(s.K), val, rem)
		if w.V1 != nil {
			_, r1, err := w.V1.Remove(s.K)
			if err != nil {
				return w.viol(w.Prop+".step", "error-on-legal-request", "v1-remove", fmt.Sprintf("v1 Remove(%x): %v", []byte(s.K), err))
			}
			if r1 != wr {
				return w.viol(w.Prop+".v1", "wrong-value", "v1-removed-flag", fmt.Sprintf("v1 Remove(%x) removed=%v, model %v", []byte(s.K), r1, wr))
			}
		}
		if rem != wr {
			return w.viol(w.Prop+".remove-result", "wrong-value", "removed-flag", fmt.Sprintf("v2 Remove(%x) = (%x,%v) want (%x,%v)", []byte(s.K), val, rem, wv, wr))
		}
		if wr && !bytes.Equal(val, wv) {
			// the value Remove returns is not part of the reads the property
			// lists; it is recorded once and the run continues
			// (neither C19 nor C20 lists it; after a reload it is a consequence of
			// the value-less replayed leaves, finding A): a probe, not a verdict
			w.P.Inc("remove_value_mismatch")
			if val == nil {
				w.P.Inc("remove_value_nil")
			}
		}
	}
	return nil
}

// saveV2 runs SaveVersion on the main handle with the halves ordered by the plan.
func (w *World) saveV2(order int64) ([]byte, int64, error) {
	g := w.H.gate
	first := LoopTree
	if order == 1 {
		first = LoopLeaf
	}
	pruning := g.AnyActive()
	treePruning := g.Active(LoopTree)
	g.beginSave(first)
	g.announce()
	h, v, err := w.H.tree.SaveVersion()
	g.endSave()
	g.settle()
	if pruning {
		w.P.Inc("prune_interrupted_by_save")
	}
	if treePruning && err == nil {
		// is the root of the new version visible to other connections?
		if vers, _, rerr := RootRows(w.Dir); rerr == nil {
			found := false
			for _, x := range vers {
				if x == v {
					found = true
				}
			}
			if !found {
				w.setCtx(CtxRootInPruneTx)
			}
		}
	}
	if first == LoopLeaf {
		w.P.Inc("save_leaf_first")
	} else {
		w.P.Inc("save_tree_first")
	}
	return h, v, err
}

// ApplySave commits the working version everywhere and compares the hashes.
// Re-committing an existing version (after loading an older one) is only
// defined when the write set is the same as in the uninterrupted run; a plan
// (shrunk) that does otherwise ends here.
func (w *World) ApplySave(s drv.Step) *drv.Violation {
	nv := w.M.Cur + 1
	want := w.M.T.WorkingHash()
	if nv <= w.M.Latest {
		if !bytes.Equal(want, w.M.Hash[nv]) {
			w.ev("%d save fork-at %d: plan no longer applicable", s.ID, nv)
			w.Ended = true
			return nil
		}
		w.P.Inc("recommit_after_load")
		if _, cps, err := RootRows(w.Dir); err == nil {
			for _, c := range cps {
				if c == nv {
					w.setCtx(CtxRewroteCheckpoint)
				}
			}
		}
	}
	empty := !w.M.Dirty()
	h, v, err := w.saveV2(s.N)
	w.ev("%d save -> v=%d h=%x err=%v", s.ID, v, h, err != nil)
	if err != nil {
		cls := "save"
		if nv <= w.M.Latest {
			cls = "save-after-load-of-older"
		}
		return w.viol(w.Prop+".step", "error-on-legal-request", cls+"/"+errKind(err), fmt.Sprintf("v2 SaveVersion (version %d): %v", nv, err))
	}
	tv, th := w.M.T.Commit()
	if tv != nv || !bytes.Equal(th, want) {
		panic("R2 inconsistent")
	}
	if w.M.T.Latest < w.M.Latest {
		w.M.T.Latest = w.M.Latest
	}
	w.M.Cont[nv] = w.M.Work.Clone()
	w.M.Hash[nv] = th
	w.M.Height[nv] = ref.Height(w.M.T.Roots[nv])
	if _, cps, rerr := RootRows(w.Dir); rerr == nil {
		for _, c := range cps {
			if c == nv && (len(w.H.cps) == 0 || nv > w.H.cps[len(w.H.cps)-1]) {
				w.H.cps = append(w.H.cps, nv)
			}
		}
	}
	w.M.Cur = nv
	w.WrittenIn[nv] = w.M.Touched
	if nv > w.M.Latest {
		w.M.Latest = nv
	}
	w.M.Touched = map[string]bool{}
	w.Commits++
	if empty {
		w.P.Inc("empty_version")
	}
	if w.M.Work.Len() == 0 && nv > 1 && w.M.Cont[nv-1] != nil && w.M.Cont[nv-1].Len() > 0 {
		w.P.Inc("shrunk_to_empty")
	}
	if w.M.Work.Len() == 0 {
		w.P.Inc("commit_of_empty_tree")
	}
	if w.V1 != nil {
		h1, v1, err := w.V1.SaveVersion()
		if err != nil {
			return w.viol(w.Prop+".step", "error-on-legal-request", "v1-save", fmt.Sprintf("v1 SaveVersion: %v", err))
		}
		w.ev("v1 save -> v=%d h=%x", v1, h1)
		if v1 != nv || !bytes.Equal(h1, th) {
			return w.viol(w.Prop+".v1", "hash-mismatch", "v1-vs-R2", fmt.Sprintf("v1 SaveVersion = (%x,%d), R2 (%x,%d)", h1, v1, th, nv))
		}
	}
	if v != nv {
		return w.viol(w.Prop+".numbering", "wrong-value", "save", fmt.Sprintf("v2 SaveVersion returned version %d want %d", v, nv))
	}
	if !bytes.Equal(h, th) {
		return w.viol(w.Prop+".commit-hash", "hash-mismatch", "save", fmt.Sprintf("v2 SaveVersion(%d) hash %x want %x (v1 = R2)", v, h, th))
	}
	if hh := w.H.tree.Hash(); !bytes.Equal(hh, th) {
		return w.viol(w.Prop+".commit-hash", "hash-mismatch", "Hash()", fmt.Sprintf("v2 Hash() after SaveVersion(%d) = %x want %x", v, hh, th))
	}
	if vv := w.H.tree.Version(); vv != nv {
		return w.viol(w.Prop+".numbering", "wrong-value", "Version()", fmt.Sprintf("v2 Version() = %d want %d", vv, nv))
	}
	return nil
}

// ---- probing helpers

// ProbeKeys returns the key universe plus absent neighbours, sorted: every key,
// its one-byte extension, its prefix, the key just below it, below min, above max.
func (w *World) ProbeKeys() [][]byte {
	set := map[string]bool{"\x00": true, "\xff\xff\xff\xff": true}
	for k := range w.Universe {
		set[k] = true
		set[k+"\x00"] = true
		if len(k) > 1 {
			set[k[:len(k)-1]] = true
		}
		b := []byte(k)
		if b[len(b)-1] > 0 {
			p := append([]byte{}, b...)
			p[len(p)-1]--
			set[string(p)+"\xff"] = true
		}
	}
	out := make([][]byte, 0, len(set))
	for k := range set {
		out = append(out, []byte(k))
	}
	sort.Slice(out, func(i, j int) bool { return bytes.Compare(out[i], out[j]) < 0 })
	return out
}

// RootRows reads the root table of a database directory through a connection
// of the harness: all versions that have a root row, and the checkpoints.
func RootRows(dir string) (versions, checkpoints []int64, err error) {
	conn, err := sqlite3.Open(fmt.Sprintf("file:%s/tree.sqlite?mode=ro", dir))
	if err != nil {
		return nil, nil, err
	}
	defer conn.Close()
	q, err := conn.Prepare("SELECT version, checkpoint FROM root ORDER BY version")
	if err != nil {
		return nil, nil, err
	}
	defer q.Close()
	for {
		ok, err := q.Step()
		if err != nil {
			return nil, nil, err
		}
		if !ok {
			break
		}
		var v int64
		var cp bool
		if err := q.Scan(&v, &cp); err != nil {
			return nil, nil, err
		}
		versions = append(versions, v)
		if cp {
			checkpoints = append(checkpoints, v)
		}
	}
	return versions, checkpoints, nil
}

func prevOf(sorted []int64, v int64) int64 {
	out := int64(-1)
	for _, c := range sorted {
		if c <= v {
			out = c
		}
	}
	return out
}
