package drv2

import (
	"fmt"
	"sort"

	"verif/drv"
	"verif/sim"
)

// gen builds normal-form histories. It mirrors the contents so that removals
// hit present keys and "drain" versions shrink the tree to empty.
type gen struct {
	r       *sim.Rand
	pool    [][]byte
	present map[string]bool
	ctr     int
	id      int
	steps   []drv.Step
	latest  int64
	opsOf   map[int64][]drv.Step // write steps of version v
	cont    map[int64]int        // number of keys in version v
	maxOps  int
	empties bool // empty values allowed
}

func newGen(r *sim.Rand, maxOps int) *gen {
	g := &gen{r: r, present: map[string]bool{}, opsOf: map[int64][]drv.Step{}, cont: map[int64]int{}, maxOps: maxOps}
	n := 0
	switch x := r.Intn(100); {
	case x < 15:
		n = r.Range(1, 3)
	case x < 50:
		n = r.Range(3, 8)
	default:
		n = r.Range(9, 28)
	}
	g.pool = drv.KeyPool(r, n)
	g.empties = r.Chance(1, 3)
	return g
}

func (g *gen) emit(s drv.Step) drv.Step {
	g.id++
	s.ID = g.id
	g.steps = append(g.steps, s)
	return s
}

func (g *gen) value() []byte {
	g.ctr++
	r := g.r
	switch {
	case g.empties && r.Chance(1, 20):
		return []byte{}
	case r.Chance(1, 10):
		n := r.Range(40, 200)
		v := make([]byte, n)
		p := fmt.Sprintf("V%d:", g.ctr)
		copy(v, p)
		for i := len(p); i < n; i++ {
			v[i] = byte('a' + i%26)
		}
		return v
	default:
		return []byte(fmt.Sprintf("v%d", g.ctr))
	}
}

func (g *gen) presentKeys() [][]byte {
	ks := make([]string, 0, len(g.present))
	for k := range g.present {
		ks = append(ks, k)
	}
	sort.Strings(ks)
	out := make([][]byte, len(ks))
	for i, k := range ks {
		out[i] = []byte(k)
	}
	return out
}

// version emits the write steps and the save of one version.
func (g *gen) version() {
	r := g.r
	var ops []drv.Step
	touched := map[string]bool{}
	write := func(s drv.Step) {
		if touched[string(s.K)] {
			return
		}
		touched[string(s.K)] = true
		ops = append(ops, g.emit(s))
		if s.Op == drv.OpSet {
			g.present[string(s.K)] = true
		} else {
			delete(g.present, string(s.K))
		}
	}
	switch x := r.Intn(100); {
	case x < 12:
		// empty version
	case x < 20 && len(g.present) > 0:
		// drain: remove every present key (the tree shrinks to empty), sometimes all but one
		ks := g.presentKeys()
		if r.Chance(1, 2) {
			r2 := r.Intn(len(ks))
			ks[0], ks[r2] = ks[r2], ks[0]
		} else if r.Chance(1, 2) {
			for i, j := 0, len(ks)-1; i < j; i, j = i+1, j-1 {
				ks[i], ks[j] = ks[j], ks[i]
			}
		}
		keep := 0
		if r.Chance(1, 4) {
			keep = 1
		}
		for _, k := range ks[:len(ks)-keep] {
			write(drv.Step{Op: drv.OpRemove, K: k})
		}
	default:
		n := r.Range(1, g.maxOps)
		if g.latest == 0 && r.Chance(1, 2) {
			n = r.Range(len(g.pool)/2, len(g.pool)) // populate
		}
		for i := 0; i < n; i++ {
			switch {
			case r.Chance(30, 100):
				var k []byte
				if ks := g.presentKeys(); len(ks) > 0 && r.Chance(4, 5) {
					k = ks[r.Intn(len(ks))]
				} else {
					k = g.pool[r.Intn(len(g.pool))]
				}
				write(drv.Step{Op: drv.OpRemove, K: k})
			default:
				write(drv.Step{Op: drv.OpSet, K: g.pool[r.Intn(len(g.pool))], V: g.value()})
			}
		}
	}
	g.emit(drv.Step{Op: drv.OpSave, N: int64(r.Intn(2))})
	g.latest++
	g.opsOf[g.latest] = ops
	g.cont[g.latest] = len(g.present)
}

// GenC19 builds the plan of one C19 run.
func GenC19(r *sim.Rand, tier string) *drv.Plan {
	p := &drv.Plan{Engine: "drv2"}
	PutOpts(p, DrawOpts(r))
	g := newGen(r, 8)
	nv := r.Range(2, 12)
	if tier == "thorough" {
		nv = r.Range(2, 30)
		if r.Chance(1, 3) {
			g.maxOps = 20
		}
	}
	for v := 0; v < nv; v++ {
		g.version()
	}
	if r.Chance(1, 2) {
		// leave uncommitted changes at the end
		save := g.present
		g.present = map[string]bool{}
		for k := range save {
			g.present[k] = true
		}
		g.version()
		g.steps = g.steps[:len(g.steps)-1] // drop the save
	}
	p.Steps = g.steps
	return p
}

// GenC20 builds the plan of one C20 run.
func GenC20(r *sim.Rand, tier string) *drv.Plan {
	p := &drv.Plan{Engine: "drv2"}
	o := DrawOpts(r)
	if r.Chance(1, 2) {
		// favour intervals that put several checkpoints into a short history
		o.CheckpointInterval = int64(r.Pick(2, 3, 4, 5))
	}
	PutOpts(p, o)
	g := newGen(r, 6)
	nv := r.Range(3, 12)
	if tier == "thorough" {
		nv = r.Range(3, 24)
	}
	grant := func(all bool) {
		loops := []string{LoopLeaf, LoopTree}
		if r.Chance(1, 2) {
			loops[0], loops[1] = loops[1], loops[0]
		}
		for _, l := range loops {
			k := int64(r.Pick(0, 1, r.Range(2, 5), -1, -1))
			if all {
				k = -1
			}
			if k != 0 {
				g.emit(drv.Step{Op: OpGrant, Codec: l, N: k})
			}
		}
	}
	pruned := false
	for v := 0; v < nv; v++ {
		g.version()
		if g.latest < 2 {
			continue
		}
		if r.Chance(18, 100) {
			var n int64
			switch x := r.Intn(10); {
			case x == 0:
				n = g.latest
			case x < 4:
				n = g.latest - 1
			default:
				n = int64(r.Range(1, int(g.latest)-1))
			}
			g.emit(drv.Step{Op: drv.OpPrune, N: n})
			pruned = true
			grant(false)
			if r.Chance(1, 8) {
				// a second prune request while the first may still be in progress
				g.emit(drv.Step{Op: drv.OpPrune, N: int64(r.Range(1, int(g.latest)))})
				grant(false)
			}
		} else if pruned && r.Chance(1, 4) {
			grant(r.Chance(1, 2))
		}
		if r.Chance(12, 100) {
			g.emit(drv.Step{Op: drv.OpReopen})
		}
		if r.Chance(8, 100) {
			g.emit(drv.Step{Op: OpLoadAll})
		}
		if r.Chance(10, 100) {
			kind := []string{"save", "export-pre", "export-post"}[r.Intn(3)]
			if g.cont[g.latest] > 0 || r.Chance(1, 4) {
				g.emit(drv.Step{Op: OpSnapshot, Codec: kind})
			}
		}
		if r.Chance(7, 100) && g.latest >= 2 {
			// load an older version and continue the history from there: the
			// same write sets, which must give the same hashes
			t := int64(r.Range(1, int(g.latest)-1))
			if r.Chance(1, 3) {
				t = g.latest - 1
			}
			g.emit(drv.Step{Op: drv.OpLoad, N: t})
			upto := g.latest
			if r.Chance(1, 4) {
				upto = t + int64(r.Range(0, int(g.latest-t)))
			}
			for u := t + 1; u <= upto; u++ {
				for _, o := range g.opsOf[u] {
					g.emit(drv.Step{Op: o.Op, K: o.K, V: o.V})
				}
				g.emit(drv.Step{Op: drv.OpSave, N: int64(r.Intn(2))})
			}
			if upto < g.latest {
				// go back to the latest version before new versions are written
				g.emit(drv.Step{Op: drv.OpReopen})
			}
		}
	}
	if pruned && r.Chance(1, 2) {
		grant(true)
	}
	g.emit(drv.Step{Op: OpLoadAll})
	p.Steps = g.steps
	return p
}
