package drv2

import (
	"bytes"
	"fmt"

	iavl2 "github.com/cosmos/iavl/v2"

	"verif/drv"
	"verif/ref"
	"verif/sim"
)

func bstr(b []byte) string {
	if b == nil {
		return "nil"
	}
	return fmt.Sprintf("%x", b)
}

// collect drains an iterator (bounded, so that a runaway iterator ends).
func collect(itr iavl2.Iterator, limit int) (out []ref.Pair, err error, runaway bool) {
	for ; itr.Valid(); itr.Next() {
		if len(out) > limit {
			runaway = true
			break
		}
		out = append(out, ref.Pair{K: append([]byte{}, itr.Key()...), V: append([]byte{}, itr.Value()...)})
	}
	err = itr.Error()
	if cerr := itr.Close(); err == nil {
		err = cerr
	}
	return
}

func pairsEqual(a, b []ref.Pair) bool {
	if len(a) != len(b) {
		return false
	}
	for i := range a {
		if !bytes.Equal(a[i].K, b[i].K) || !bytes.Equal(a[i].V, b[i].V) {
			return false
		}
	}
	return true
}

func renderPairs(ps []ref.Pair) string {
	s := "["
	for i, p := range ps {
		if i > 0 {
			s += " "
		}
		if i >= 12 {
			s += "..."
			break
		}
		s += fmt.Sprintf("%x=%x", p.K, p.V)
	}
	return s + "]"
}

// auditRange compares the three iterators over [start,end) / [start,end] with R1.
func (w *World) auditRange(t *iavl2.Tree, m *ref.SMap, oracle string, start, end []byte) *drv.Violation {
	limit := m.Len() + 4
	type kind struct {
		name      string
		asc, incl bool
	}
	for _, k := range []kind{{"Iterator", true, false}, {"Iterator-inclusive", true, true}, {"ReverseIterator", false, false}} {
		var itr iavl2.Iterator
		var err error
		if k.asc {
			itr, err = t.Iterator(start, end, k.incl)
		} else {
			itr, err = t.ReverseIterator(start, end)
		}
		if err != nil {
			return w.viol(oracle, "error-on-legal-request", k.name, fmt.Sprintf("%s(%s,%s): %v", k.name, bstr(start), bstr(end), err))
		}
		got, ierr, runaway := collect(itr, limit)
		want := m.Range(start, end, k.asc, k.incl)
		w.Stats["iterations"]++
		if runaway {
			return w.viol(oracle, "no-termination", k.name, fmt.Sprintf("%s(%s,%s) yields more than %d items", k.name, bstr(start), bstr(end), limit))
		}
		if ierr != nil {
			return w.viol(oracle, "error-on-legal-request", k.name, fmt.Sprintf("%s(%s,%s): iterator error %v", k.name, bstr(start), bstr(end), ierr))
		}
		if !pairsEqual(got, want) {
			return w.viol(oracle, "wrong-value", k.name, fmt.Sprintf("%s(%s,%s) = %s want %s", k.name, bstr(start), bstr(end), renderPairs(got), renderPairs(want)))
		}
	}
	return nil
}

// auditPoint compares Get and Has of all probe keys with R1.
func (w *World) auditPoint(t *iavl2.Tree, m *ref.SMap, oracle string, keys [][]byte) *drv.Violation {
	w.lastBadKey = nil
	for _, k := range keys {
		w.lastBadKey = k
		wv, wok := m.Get(k)
		got, err := t.Get(k)
		if err != nil {
			return w.viol(oracle, "error-on-legal-request", "Get", fmt.Sprintf("Get(%x): %v", k, err))
		}
		has, err := t.Has(k)
		if err != nil {
			return w.viol(oracle, "error-on-legal-request", "Has", fmt.Sprintf("Has(%x): %v", k, err))
		}
		w.Stats["lookups"]++
		if wok && len(wv) == 0 {
			// A stored empty value: v2 signals absence by a nil value, so an
			// empty value must come back non-nil for Has to be right.
			if has != wok {
				return w.viol(oracle, "wrong-value", "Has-empty-value", fmt.Sprintf("Has(%x) = %v want %v (value stored is empty)", k, has, wok))
			}
			if len(got) != 0 {
				return w.viol(oracle, "wrong-value", "Get", fmt.Sprintf("Get(%x) = %s want empty", k, bstr(got)))
			}
			continue
		}
		if has != wok {
			return w.viol(oracle, "wrong-value", "Has", fmt.Sprintf("Has(%x) = %v want %v", k, has, wok))
		}
		if wok && !bytes.Equal(got, wv) {
			return w.viol(oracle, "wrong-value", "Get", fmt.Sprintf("Get(%x) = %s want %x", k, bstr(got), wv))
		}
		if !wok && got != nil {
			return w.viol(oracle, "wrong-value", "Get-absent", fmt.Sprintf("Get(%x) = %x for an absent key", k, got))
		}
	}
	w.lastBadKey = nil
	return nil
}

// auditShape compares Size and Height. On an empty tree both must return 0;
// a panic there is recorded (it does not end the run) under emptyOracle.
func (w *World) auditShape(t *iavl2.Tree, size int64, height int8, oracle, emptyOracle string) *drv.Violation {
	if size == 0 {
		w.P.Inc("size_height_on_empty")
		if h := t.Hash(); !bytes.Equal(h, ref.EmptyHash()) {
			return w.viol(oracle, "hash-mismatch", "Hash()-on-empty", fmt.Sprintf("Hash() = %x on an empty tree, want %x", h, ref.EmptyHash()))
		}
		for _, call := range []struct {
			name string
			f    func() int64
		}{{"Size", func() int64 { return t.Size() }}, {"Height", func() int64 { return int64(t.Height()) }}} {
			var got int64
			v := w.guard(emptyOracle, "size-height-on-empty", func() *drv.Violation {
				got = call.f()
				return nil
			})
			if v != nil {
				v.Detail = call.name + "() on an empty tree: " + v.Detail
				w.record(v)
				continue
			}
			if got != 0 {
				return w.viol(oracle, "wrong-value", call.name, fmt.Sprintf("%s() = %d on an empty tree", call.name, got))
			}
		}
		return nil
	}
	if got := t.Size(); got != size {
		return w.viol(oracle, "wrong-value", "Size", fmt.Sprintf("Size() = %d want %d", got, size))
	}
	if got := t.Height(); got != height {
		return w.viol(oracle, "wrong-value", "Height", fmt.Sprintf("Height() = %d want %d", got, height))
	}
	return nil
}

// AuditWorking compares every read of the main handle's working tree with the
// models: point reads of all probe keys, shape, and iterators over nPairs
// PRNG-chosen bound pairs (plus the unbounded one).
func (w *World) AuditWorking(r *sim.Rand, nPairs int) *drv.Violation {
	oracle := w.Prop + ".reads"
	t := w.H.tree
	keys := w.ProbeKeys()
	if v := w.auditPoint(t, w.M.Work, oracle, keys); v != nil {
		return v
	}
	if v := w.auditShape(t, int64(w.M.Work.Len()), ref.Height(w.M.T.Work), oracle, w.Prop+".empty-tree"); v != nil {
		return v
	}
	bounds := append([][]byte{nil}, keys...)
	if v := w.auditRange(t, w.M.Work, oracle+".iter", nil, nil); v != nil {
		return v
	}
	for i := 0; i < nPairs; i++ {
		a := bounds[r.Intn(len(bounds))]
		b := bounds[r.Intn(len(bounds))]
		if r.Chance(3, 4) && a != nil && b != nil && bytes.Compare(a, b) > 0 {
			a, b = b, a
		}
		if v := w.auditRange(t, w.M.Work, oracle+".iter", a, b); v != nil {
			return v
		}
	}
	return nil
}

// AuditTree compares a loaded tree (any handle) with the contents of a version:
// hash, version, point reads of all probe keys, shape and iteration (unbounded
// plus a few bounded ranges).
func (w *World) AuditTree(t *iavl2.Tree, ver int64, oracle string, r *sim.Rand, nPairs int) *drv.Violation {
	m := w.M.Cont[ver]
	if m == nil {
		m = ref.NewSMap()
	}
	if h := t.Hash(); !bytes.Equal(h, w.M.Hash[ver]) {
		return w.viol(oracle, "hash-mismatch", "Hash()", fmt.Sprintf("version %d: Hash() = %x want %x", ver, h, w.M.Hash[ver]))
	}
	if v := t.Version(); v != ver {
		return w.viol(oracle, "wrong-value", "Version()", fmt.Sprintf("Version() = %d want %d", v, ver))
	}
	keys := w.ProbeKeys()
	if v := w.auditPoint(t, m, oracle, keys); v != nil {
		v.Detail = fmt.Sprintf("version %d: %s", ver, v.Detail)
		return v
	}
	if v := w.auditShape(t, int64(m.Len()), w.M.Height[ver], oracle, w.Prop+".empty-tree"); v != nil {
		v.Detail = fmt.Sprintf("version %d: %s", ver, v.Detail)
		return v
	}
	if v := w.auditRange(t, m, oracle, nil, nil); v != nil {
		v.Detail = fmt.Sprintf("version %d: %s", ver, v.Detail)
		return v
	}
	bounds := append([][]byte{nil}, keys...)
	for i := 0; i < nPairs; i++ {
		a := bounds[r.Intn(len(bounds))]
		b := bounds[r.Intn(len(bounds))]
		if a != nil && b != nil && bytes.Compare(a, b) > 0 {
			a, b = b, a
		}
		if v := w.auditRange(t, m, oracle, a, b); v != nil {
			v.Detail = fmt.Sprintf("version %d: %s", ver, v.Detail)
			return v
		}
	}
	return nil
}
