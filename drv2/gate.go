// Package drv2 is the v2 driver: explicit, replayable plans executed on the real
// SQLite-backed v2 Tree (real files in a per-run scratch directory) in lock-step
// with v1 (on the simulated disk) and the reference models R1/R2. The
// asynchronous parts of v2 (the two writer loops) are driven through the
// build-tag-guarded seams of v2/verif_on.go so that one plan is one execution.
package drv2

import (
	"runtime"
	"sync"

	iavl2 "github.com/cosmos/iavl/v2"
)

// Loop names used by the seams.
const (
	LoopLeaf = "leaf"
	LoopTree = "tree"
)

type loopState struct {
	active bool // a prune has been signalled and has not reported idle yet
	parked bool // the loop is blocked inside the prune gate
	tokens int  // prune steps the plan has granted and that are not consumed yet
	steps  int  // prune steps executed so far
	idles  int  // idle reports so far
}

// Gate owns the progress of the two writer loops of one v2 Tree handle.
//
// Pruning: a loop executes one prune step per token. While the main goroutine
// has announced an operation (save, prune signal, close) the gate answers
// "false", the loop re-enters its select and takes the signal; nothing else
// happens in the loops until the main goroutine has cleared the announcement
// and both loops are parked again (or idle). Hence at every moment at most one
// goroutine makes progress inside v2 apart from the two halves of a save,
// which are ordered by saveOrder/saveDone.
type Gate struct {
	mu        sync.Mutex
	cond      *sync.Cond
	announced bool
	closed    bool
	loops     map[string]*loopState
	first     string // loop whose half of the save runs first
	saveDone  map[string]bool
	inSave    bool
}

func newGate() *Gate {
	g := &Gate{loops: map[string]*loopState{LoopLeaf: {}, LoopTree: {}}, saveDone: map[string]bool{}}
	g.cond = sync.NewCond(&g.mu)
	return g
}

var gates sync.Map // writer identity -> *Gate

func lookup(w any) *Gate {
	if v, ok := gates.Load(w); ok {
		return v.(*Gate)
	}
	return nil
}

func init() {
	iavl2.VerifPruneGate = func(w any, loop string) bool {
		if g := lookup(w); g != nil {
			return g.pruneGate(loop)
		}
		return true
	}
	iavl2.VerifPruneIdle = func(w any, loop string) {
		if g := lookup(w); g != nil {
			g.pruneIdle(loop)
		}
	}
	iavl2.VerifSaveOrder = func(w any, loop string) {
		if g := lookup(w); g != nil {
			g.saveOrder(loop)
		}
	}
	iavl2.VerifSaveDone = func(w any, loop string) {
		if g := lookup(w); g != nil {
			g.saveDoneHook(loop)
		}
	}
}

// ---- called from the writer loops

func (g *Gate) pruneGate(loop string) bool {
	g.mu.Lock()
	l := g.loops[loop]
	for {
		if g.announced || g.closed {
			l.parked = false
			g.mu.Unlock()
			runtime.Gosched()
			return false
		}
		l.active = true
		if l.tokens > 0 {
			l.tokens--
			l.steps++
			l.parked = false
			g.mu.Unlock()
			return true
		}
		l.parked = true
		g.cond.Broadcast()
		g.cond.Wait()
	}
}

func (g *Gate) pruneIdle(loop string) {
	g.mu.Lock()
	l := g.loops[loop]
	l.active = false
	l.parked = false
	l.tokens = 0
	l.idles++
	g.cond.Broadcast()
	g.mu.Unlock()
}

func (g *Gate) saveOrder(loop string) {
	g.mu.Lock()
	for g.inSave && g.first != "" && g.first != loop && !g.saveDone[g.first] {
		g.cond.Wait()
	}
	g.mu.Unlock()
}

func (g *Gate) saveDoneHook(loop string) {
	g.mu.Lock()
	g.saveDone[loop] = true
	g.cond.Broadcast()
	g.mu.Unlock()
}

// ---- called from the main goroutine (the plan executor)

// announce makes parked loops leave the gate and keeps them out of pruning.
func (g *Gate) announce() {
	g.mu.Lock()
	g.announced = true
	g.cond.Broadcast()
	g.mu.Unlock()
}

// settle clears the announcement and waits until every loop with pending
// pruning is parked at the gate again.
func (g *Gate) settle() {
	g.mu.Lock()
	g.announced = false
	g.cond.Broadcast()
	for _, name := range []string{LoopLeaf, LoopTree} {
		l := g.loops[name]
		for l.active && !l.parked {
			g.cond.Wait()
		}
	}
	g.mu.Unlock()
}

// beginSave fixes the order of the two halves of the next SaveVersion.
func (g *Gate) beginSave(first string) {
	g.mu.Lock()
	g.first = first
	g.saveDone = map[string]bool{}
	g.inSave = true
	g.mu.Unlock()
}

func (g *Gate) endSave() {
	g.mu.Lock()
	g.inSave = false
	g.cond.Broadcast()
	g.mu.Unlock()
}

// expectPrune marks both loops as having pending pruning (called before the
// prune signal is sent; a loop that has nothing to do reports idle).
func (g *Gate) expectPrune() {
	g.mu.Lock()
	g.loops[LoopLeaf].active = true
	g.loops[LoopTree].active = true
	g.mu.Unlock()
}

// Active reports whether a loop has pending pruning.
func (g *Gate) Active(loop string) bool {
	g.mu.Lock()
	defer g.mu.Unlock()
	return g.loops[loop].active
}

// AnyActive reports whether any loop has pending pruning.
func (g *Gate) AnyActive() bool { return g.Active(LoopLeaf) || g.Active(LoopTree) }

// grant lets a loop execute up to n prune steps (n < 0: until it is idle) and
// waits until they are done. It returns the number of steps executed and
// whether the loop is idle afterwards.
func (g *Gate) grant(loop string, n int) (steps int, idle bool) {
	g.mu.Lock()
	defer g.mu.Unlock()
	l := g.loops[loop]
	before := l.steps
	for l.active && (n < 0 || l.steps-before < n) {
		// one token at a time: the step has completed when the loop is parked again
		for l.active && !l.parked {
			g.cond.Wait()
		}
		if !l.active {
			break
		}
		l.tokens = 1
		l.parked = false
		g.cond.Broadcast()
		for l.active && (l.tokens > 0 || !l.parked) {
			g.cond.Wait()
		}
	}
	return l.steps - before, !l.active
}

// shut releases the loops for good (before Tree.Close cancels them).
func (g *Gate) shut() {
	g.mu.Lock()
	g.closed = true
	g.cond.Broadcast()
	g.mu.Unlock()
}
