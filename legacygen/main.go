// Command legacygen drives the real legacy library (iavl v0.20.0 on
// cometbft-db MemDB) with a recorded history read from stdin and prints the
// raw database dump plus, per legacy version, the contents and root hash the
// legacy library itself reported (R4 of the harness). It is a separate module
// because two versions of the same module path cannot live in one binary.
package main

import (
	"encoding/hex"
	"encoding/json"
	"fmt"
	"os"

	dbm "github.com/cometbft/cometbft-db"
	"github.com/cosmos/iavl"
)

type step struct {
	Op string `json:"op"`
	K  string `json:"k"`
	V  string `json:"v"`
	N  int64  `json:"n"`
}

type input struct {
	Fast  bool   `json:"fast"`
	Steps []step `json:"steps"`
}

type kv struct {
	K string `json:"k"`
	V string `json:"v"`
}

type version struct {
	Version int64  `json:"version"`
	Hash    string `json:"hash"`
	Pairs   []kv   `json:"pairs"`
}

type output struct {
	Dump     []kv      `json:"dump"`
	Versions []version `json:"versions"`
	Latest   int64     `json:"latest"`
	Error    string    `json:"error,omitempty"`
}

func fail(err error) {
	_ = json.NewEncoder(os.Stdout).Encode(output{Error: err.Error()})
	os.Exit(0)
}

func unhex(s string) []byte {
	b, err := hex.DecodeString(s)
	if err != nil {
		fail(err)
	}
	if b == nil {
		b = []byte{}
	}
	return b
}

func main() {
	var in input
	if err := json.NewDecoder(os.Stdin).Decode(&in); err != nil {
		fail(err)
	}
	db := dbm.NewMemDB()
	t, err := iavl.NewMutableTree(db, 100, !in.Fast)
	if err != nil {
		fail(err)
	}
	if _, err := t.Load(); err != nil {
		fail(err)
	}
	var latest int64
	for _, s := range in.Steps {
		switch s.Op {
		case "set":
			if _, err := t.Set(unhex(s.K), unhex(s.V)); err != nil {
				fail(err)
			}
		case "remove":
			if _, _, err := t.Remove(unhex(s.K)); err != nil {
				fail(err)
			}
		case "save":
			_, v, err := t.SaveVersion()
			if err != nil {
				fail(err)
			}
			latest = v
		case "ldel":
			if s.N != latest && t.VersionExists(s.N) {
				if err := t.DeleteVersion(s.N); err != nil {
					fail(fmt.Errorf("DeleteVersion(%d): %w", s.N, err))
				}
			}
		}
	}
	out := output{Latest: latest}
	for _, v := range t.AvailableVersions() {
		it, err := t.GetImmutable(int64(v))
		if err != nil {
			fail(err)
		}
		h, err := it.Hash()
		if err != nil {
			fail(err)
		}
		ver := version{Version: int64(v), Hash: hex.EncodeToString(h), Pairs: []kv{}}
		_, err = it.Iterate(func(k, val []byte) bool {
			ver.Pairs = append(ver.Pairs, kv{hex.EncodeToString(k), hex.EncodeToString(val)})
			return false
		})
		if err != nil {
			fail(err)
		}
		out.Versions = append(out.Versions, ver)
	}
	itr, err := db.Iterator(nil, nil)
	if err != nil {
		fail(err)
	}
	for ; itr.Valid(); itr.Next() {
		out.Dump = append(out.Dump, kv{hex.EncodeToString(itr.Key()), hex.EncodeToString(itr.Value())})
	}
	itr.Close()
	_ = json.NewEncoder(os.Stdout).Encode(out)
}
