package ref

import (
	"bytes"
	"encoding/binary"
	"errors"
	"fmt"
)

// R3: independent encoder/decoder of the pinned on-disk format.
//
//	s<8B version BE><4B nonce BE>  -> node | reference root (13 B: 's'+node key; 9 B: 's'+version) | empty (empty tree)
//	f<key>                          -> varint(version) bytes(value)
//	m storage_version               -> "1.1.0-<latest>" once the fast index exists
//	n<32B hash>                     -> legacy node
//	r<8B version BE>                -> legacy root hash (empty for the empty tree)
//	o<8B to><8B from><32B hash>     -> legacy orphan record (value = hash)
//
// node body   : varint(height) varint(size) bytes(key) then
//               leaf : bytes(value)
//               inner: bytes(hash[32]) varint(mode) child(left) child(right)
//               child: mode bit set (1 left, 2 right) -> bytes(hash[32]) (legacy child)
//                      otherwise varint(version) varint(nonce)
// legacy body : varint(height) varint(size) varint(version) bytes(key) then
//               leaf : bytes(value);  inner: bytes(leftHash) bytes(rightHash)
// varint = zig-zag LEB128 (encoding/binary), bytes = uvarint length + data.

// DNode is a decoded stored node.
type DNode struct {
	Height int8
	Size   int64
	Key    []byte
	Value  []byte // leaves
	Hash   []byte // inner nodes
	Mode   int64
	// children of inner nodes
	LVer, RVer     int64
	LNonce, RNonce uint32
	LHash, RHash   []byte // legacy children
	// legacy nodes only
	Version int64
}

type rd struct {
	b   []byte
	err error
}

func (r *rd) varint() int64 {
	if r.err != nil {
		return 0
	}
	v, n := binary.Varint(r.b)
	if n <= 0 {
		r.err = errors.New("bad varint")
		return 0
	}
	r.b = r.b[n:]
	return v
}

func (r *rd) bytes() []byte {
	if r.err != nil {
		return nil
	}
	l, n := binary.Uvarint(r.b)
	if n <= 0 {
		r.err = errors.New("bad length")
		return nil
	}
	r.b = r.b[n:]
	if l > uint64(len(r.b)) {
		r.err = errors.New("short bytes")
		return nil
	}
	out := r.b[:l:l]
	r.b = r.b[l:]
	return out
}

// DecodeNode decodes a new-format node body; it requires the whole input to be consumed.
func DecodeNode(val []byte) (*DNode, error) {
	r := &rd{b: val}
	h := r.varint()
	n := &DNode{}
	if h < 0 || h > 127 {
		return nil, fmt.Errorf("height %d out of range", h)
	}
	n.Height = int8(h)
	n.Size = r.varint()
	n.Key = r.bytes()
	if n.Height == 0 {
		n.Value = r.bytes()
	} else {
		n.Hash = r.bytes()
		n.Mode = r.varint()
		if r.err == nil && (n.Mode < 0 || n.Mode > 3) {
			return nil, fmt.Errorf("mode %d", n.Mode)
		}
		if n.Mode&1 != 0 {
			n.LHash = r.bytes()
		} else {
			n.LVer = r.varint()
			nonce := r.varint()
			n.LNonce = uint32(nonce)
			if r.err == nil && int64(n.LNonce) != nonce {
				return nil, errors.New("left nonce out of range")
			}
		}
		if n.Mode&2 != 0 {
			n.RHash = r.bytes()
		} else {
			n.RVer = r.varint()
			nonce := r.varint()
			n.RNonce = uint32(nonce)
			if r.err == nil && int64(n.RNonce) != nonce {
				return nil, errors.New("right nonce out of range")
			}
		}
	}
	if r.err != nil {
		return nil, r.err
	}
	if len(r.b) != 0 {
		return nil, fmt.Errorf("%d trailing bytes", len(r.b))
	}
	return n, nil
}

// EncodeNode encodes a new-format node body.
func EncodeNode(n *DNode) []byte {
	var b bytes.Buffer
	putVarint(&b, int64(n.Height))
	putVarint(&b, n.Size)
	putBytes(&b, n.Key)
	if n.Height == 0 {
		putBytes(&b, n.Value)
		return b.Bytes()
	}
	putBytes(&b, n.Hash)
	putVarint(&b, n.Mode)
	if n.Mode&1 != 0 {
		putBytes(&b, n.LHash)
	} else {
		putVarint(&b, n.LVer)
		putVarint(&b, int64(n.LNonce))
	}
	if n.Mode&2 != 0 {
		putBytes(&b, n.RHash)
	} else {
		putVarint(&b, n.RVer)
		putVarint(&b, int64(n.RNonce))
	}
	return b.Bytes()
}

// DecodeLegacyNode decodes a legacy node body.
func DecodeLegacyNode(val []byte) (*DNode, error) {
	r := &rd{b: val}
	h := r.varint()
	if h < -128 || h > 127 {
		return nil, fmt.Errorf("height %d out of range", h)
	}
	n := &DNode{Height: int8(h)}
	n.Size = r.varint()
	n.Version = r.varint()
	n.Key = r.bytes()
	if n.Height == 0 {
		n.Value = r.bytes()
	} else {
		n.LHash = r.bytes()
		n.RHash = r.bytes()
	}
	if r.err != nil {
		return nil, r.err
	}
	return n, nil
}

// EncodeLegacyNode encodes a legacy node body.
func EncodeLegacyNode(n *DNode) []byte {
	var b bytes.Buffer
	putVarint(&b, int64(n.Height))
	putVarint(&b, n.Size)
	putVarint(&b, n.Version)
	putBytes(&b, n.Key)
	if n.Height == 0 {
		putBytes(&b, n.Value)
	} else {
		putBytes(&b, n.LHash)
		putBytes(&b, n.RHash)
	}
	return b.Bytes()
}

// SKey builds the storage key of node (version, nonce).
func SKey(ver int64, nonce uint32) []byte {
	k := make([]byte, 13)
	k[0] = 's'
	binary.BigEndian.PutUint64(k[1:], uint64(ver))
	binary.BigEndian.PutUint32(k[9:], nonce)
	return k
}

// ParseSKey splits a node storage key.
func ParseSKey(k []byte) (ver int64, nonce uint32, ok bool) {
	if len(k) != 13 || k[0] != 's' {
		return 0, 0, false
	}
	return int64(binary.BigEndian.Uint64(k[1:])), binary.BigEndian.Uint32(k[9:]), true
}

// SKind classifies the value stored under an s-key.
type SKind int

const (
	SNode SKind = iota
	SEmptyRoot
	SRefRoot    // 13 bytes: 's' + (version, nonce)
	SRefRootOld // 9 bytes: 's' + version
)

// ClassifyS tells what an s-entry's value is.
func ClassifyS(val []byte) (kind SKind, refVer int64, refNonce uint32) {
	switch {
	case len(val) == 0:
		return SEmptyRoot, 0, 0
	case val[0] == 's' && len(val) == 13:
		v, n, _ := ParseSKey(val)
		return SRefRoot, v, n
	case val[0] == 's' && len(val) == 9:
		return SRefRootOld, int64(binary.BigEndian.Uint64(val[1:])), 1
	}
	return SNode, 0, 0
}

// RefRootValue encodes a reference-root marker.
func RefRootValue(ver int64, nonce uint32) []byte { return SKey(ver, nonce) }

// FKey builds a fast-index storage key.
func FKey(key []byte) []byte { return append([]byte{'f'}, key...) }

// DecodeFast decodes a fast-index entry.
func DecodeFast(val []byte) (ver int64, value []byte, err error) {
	r := &rd{b: val}
	ver = r.varint()
	value = r.bytes()
	if r.err != nil {
		return 0, nil, r.err
	}
	if len(r.b) != 0 {
		return 0, nil, fmt.Errorf("%d trailing bytes", len(r.b))
	}
	return ver, value, nil
}

// EncodeFast encodes a fast-index entry.
func EncodeFast(ver int64, value []byte) []byte {
	var b bytes.Buffer
	putVarint(&b, ver)
	putBytes(&b, value)
	return b.Bytes()
}

// StorageVersionKey is the metadata key of the fast-index label.
var StorageVersionKey = []byte("mstorage_version")

// ParseLabel parses "1.1.0-<v>"; fast reports whether the index is declared present.
func ParseLabel(val []byte) (fast bool, ver int64, err error) {
	s := string(val)
	if s < "1.1.0" {
		return false, 0, nil
	}
	i := bytes.IndexByte(val, '-')
	if i < 0 {
		return true, -1, nil
	}
	var v int64
	if _, err := fmt.Sscanf(s[i+1:], "%d", &v); err != nil {
		return true, 0, fmt.Errorf("bad label %q", s)
	}
	return true, v, nil
}

// Label encodes the fast-index label.
func Label(ver int64) []byte { return []byte(fmt.Sprintf("1.1.0-%d", ver)) }

// LegacyNodeKey, LegacyRootKey build legacy storage keys.
func LegacyNodeKey(hash []byte) []byte { return append([]byte{'n'}, hash...) }
func LegacyRootKey(ver int64) []byte {
	k := make([]byte, 9)
	k[0] = 'r'
	binary.BigEndian.PutUint64(k[1:], uint64(ver))
	return k
}

// LegacyHash computes the hash of a legacy node: the hash preimage is
// varint(height) varint(size) varint(version) then leaf: bytes(key)
// bytes(sha256(value)); inner: bytes(left) bytes(right) — the same as the
// current format.
func LegacyHash(n *DNode) []byte {
	t := &TNode{Key: n.Key, Value: n.Value, H: n.Height, N: n.Size, Ver: n.Version}
	if n.Height > 0 {
		t.Left = &TNode{Hash: n.LHash}
		t.Right = &TNode{Hash: n.RHash}
	}
	return hashOf(t, n.Version)
}
