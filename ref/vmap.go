// Package ref holds the reference models used as oracles. Nothing in this
// package imports or calls iavl code.
package ref

import (
	"bytes"
	"sort"
)

// Pair is a key/value pair.
type Pair struct {
	K, V []byte
}

// SMap is an immutable-by-convention sorted map (copy before modifying).
type SMap struct {
	m    map[string][]byte
	keys []string // sorted cache; nil when stale
}

// NewSMap returns an empty map.
func NewSMap() *SMap { return &SMap{m: map[string][]byte{}} }

// Clone returns an independent copy.
func (s *SMap) Clone() *SMap {
	n := &SMap{m: make(map[string][]byte, len(s.m))}
	for k, v := range s.m {
		n.m[k] = v
	}
	return n
}

// Len returns the number of keys.
func (s *SMap) Len() int { return len(s.m) }

// Get returns the value and whether the key is present.
func (s *SMap) Get(k []byte) ([]byte, bool) {
	v, ok := s.m[string(k)]
	return v, ok
}

// Set stores a pair; reports whether the key existed.
func (s *SMap) Set(k, v []byte) bool {
	_, ok := s.m[string(k)]
	s.m[string(k)] = append([]byte{}, v...)
	if !ok {
		s.keys = nil
	}
	return ok
}

// Delete removes a key; returns the old value and whether it existed.
func (s *SMap) Delete(k []byte) ([]byte, bool) {
	v, ok := s.m[string(k)]
	if ok {
		delete(s.m, string(k))
		s.keys = nil
	}
	return v, ok
}

// Keys returns the keys in ascending order (shared slice, do not modify).
func (s *SMap) Keys() []string {
	if s.keys == nil {
		s.keys = make([]string, 0, len(s.m))
		for k := range s.m {
			s.keys = append(s.keys, k)
		}
		sort.Strings(s.keys)
	}
	return s.keys
}

// Pairs returns all pairs in ascending order.
func (s *SMap) Pairs() []Pair {
	ks := s.Keys()
	out := make([]Pair, len(ks))
	for i, k := range ks {
		out[i] = Pair{K: []byte(k), V: s.m[k]}
	}
	return out
}

// Rank returns the number of keys strictly smaller than k and whether k is present.
func (s *SMap) Rank(k []byte) (int, bool) {
	ks := s.Keys()
	i := sort.SearchStrings(ks, string(k))
	return i, i < len(ks) && ks[i] == string(k)
}

// ByIndex returns the i-th pair in key order.
func (s *SMap) ByIndex(i int) (Pair, bool) {
	ks := s.Keys()
	if i < 0 || i >= len(ks) {
		return Pair{}, false
	}
	return Pair{K: []byte(ks[i]), V: s.m[ks[i]]}, true
}

// Range returns the pairs with start <= k < end (<= end when inclusive); a nil
// bound is open. Descending order when !asc.
func (s *SMap) Range(start, end []byte, asc, inclusive bool) []Pair {
	var out []Pair
	for _, k := range s.Keys() {
		kb := []byte(k)
		if start != nil && bytes.Compare(kb, start) < 0 {
			continue
		}
		if end != nil {
			c := bytes.Compare(kb, end)
			if c > 0 || (c == 0 && !inclusive) {
				continue
			}
		}
		out = append(out, Pair{K: kb, V: s.m[k]})
	}
	if !asc {
		for i, j := 0, len(out)-1; i < j; i, j = i+1, j-1 {
			out[i], out[j] = out[j], out[i]
		}
	}
	return out
}

// Equal compares contents.
func (s *SMap) Equal(o *SMap) bool {
	if len(s.m) != len(o.m) {
		return false
	}
	for k, v := range s.m {
		w, ok := o.m[k]
		if !ok || !bytes.Equal(v, w) {
			return false
		}
	}
	return true
}

// ---------------------------------------------------------------------------

// VMap is R1: one sorted map per committed version plus one working map.
type VMap struct {
	Committed map[int64]*SMap
	// Written[v] = keys on which Set was called while building v and which are
	// present in v (used by the change-set oracle).
	Written map[int64]map[string]bool
	Working *SMap
	written map[string]bool

	First, Latest int64 // 0 = no version
	Cur           int64 // version the working tree is based on (tree.version)
	InitialVer    int64 // 0 = not configured
}

// NewVMap returns an empty model.
func NewVMap() *VMap {
	return &VMap{
		Committed: map[int64]*SMap{},
		Written:   map[int64]map[string]bool{},
		Working:   NewSMap(),
		written:   map[string]bool{},
	}
}

// Clone deep-copies the model (committed maps are shared: they are immutable).
func (m *VMap) Clone() *VMap {
	n := &VMap{
		Committed:  make(map[int64]*SMap, len(m.Committed)),
		Written:    make(map[int64]map[string]bool, len(m.Written)),
		Working:    m.Working.Clone(),
		written:    make(map[string]bool, len(m.written)),
		First:      m.First,
		Latest:     m.Latest,
		Cur:        m.Cur,
		InitialVer: m.InitialVer,
	}
	for v, s := range m.Committed {
		n.Committed[v] = s
	}
	for v, s := range m.Written {
		n.Written[v] = s
	}
	for k := range m.written {
		n.written[k] = true
	}
	return n
}

// Set writes to the working map.
func (m *VMap) Set(k, v []byte) bool {
	m.written[string(k)] = true
	return m.Working.Set(k, v)
}

// Remove deletes from the working map.
func (m *VMap) Remove(k []byte) ([]byte, bool) {
	v, ok := m.Working.Delete(k)
	return v, ok
}

// NextVersion is the number the next commit gets.
func (m *VMap) NextVersion() int64 {
	if m.Cur == 0 && m.Latest == 0 && m.InitialVer > 0 {
		return m.InitialVer
	}
	return m.Cur + 1
}

// Commit stores the working map as the next version and returns its number.
// The caller has checked that the version does not exist yet.
func (m *VMap) Commit() int64 {
	v := m.NextVersion()
	m.Committed[v] = m.Working.Clone()
	w := map[string]bool{}
	for k := range m.written {
		if _, ok := m.Working.m[k]; ok {
			w[k] = true
		}
	}
	m.Written[v] = w
	m.written = map[string]bool{}
	if m.First == 0 {
		m.First = v
	}
	m.Latest = v
	m.Cur = v
	return v
}

// Discard resets the working map to the version it is based on.
func (m *VMap) Discard() {
	if s, ok := m.Committed[m.Cur]; ok {
		m.Working = s.Clone()
	} else {
		m.Working = NewSMap()
	}
	m.written = map[string]bool{}
}

// Load makes version v the base of the working map.
func (m *VMap) Load(v int64) {
	m.Cur = v
	m.Discard()
}

// Has reports whether v is a retained version.
func (m *VMap) Has(v int64) bool {
	_, ok := m.Committed[v]
	return ok
}

// PruneTo deletes versions <= n.
func (m *VMap) PruneTo(n int64) {
	for v := range m.Committed {
		if v <= n {
			delete(m.Committed, v)
			delete(m.Written, v)
		}
	}
	if n >= m.First {
		m.First = n + 1
	}
}

// RollbackTo deletes versions > v and loads v.
func (m *VMap) RollbackTo(v int64) {
	for u := range m.Committed {
		if u > v {
			delete(m.Committed, u)
			delete(m.Written, u)
		}
	}
	m.Latest = v
	m.Load(v)
}

// Versions returns the retained versions ascending.
func (m *VMap) Versions() []int64 {
	out := make([]int64, 0, len(m.Committed))
	for v := range m.Committed {
		out = append(out, v)
	}
	sort.Slice(out, func(i, j int) bool { return out[i] < out[j] })
	return out
}
