package ref

import (
	"bytes"
	"crypto/sha256"
	"encoding/binary"
	"fmt"
)

// TNode is a node of R2, the independent IAVL+ definition (DESIGN.md
// Appendix A). Committed nodes (Ver > 0) are never modified.
type TNode struct {
	Key   []byte
	Value []byte // leaves only
	Left  *TNode
	Right *TNode
	H     int8
	N     int64
	Ver   int64  // 0 while uncommitted
	Hash  []byte // set at commit
	Nonce uint32 // pre-order number within Ver, set at commit
}

// IsLeaf reports whether n is a leaf.
func (n *TNode) IsLeaf() bool { return n.H == 0 }

func leaf(k, v []byte) *TNode {
	return &TNode{Key: append([]byte{}, k...), Value: append([]byte{}, v...), H: 0, N: 1}
}

func (n *TNode) copyInner() *TNode {
	return &TNode{Key: n.Key, Left: n.Left, Right: n.Right, H: n.H, N: n.N}
}

func (n *TNode) measure() {
	h := n.Left.H
	if n.Right.H > h {
		h = n.Right.H
	}
	n.H = h + 1
	n.N = n.Left.N + n.Right.N
}

// Probes counts rare structural events (evidence).
type Probes struct {
	LL, LR, RR, RL int
}

// Tree is R2: a versioned persistent IAVL+ tree.
type Tree struct {
	Roots      map[int64]*TNode // committed roots (nil = empty tree)
	Work       *TNode
	Cur        int64 // version the working tree is based on
	Latest     int64
	InitialVer int64
	P          Probes
}

// NewTree returns an empty reference tree.
func NewTree() *Tree { return &Tree{Roots: map[int64]*TNode{}} }

// Clone copies the bookkeeping; nodes are shared (persistent structure).
func (t *Tree) Clone() *Tree {
	n := &Tree{Roots: make(map[int64]*TNode, len(t.Roots)), Work: t.Work, Cur: t.Cur, Latest: t.Latest, InitialVer: t.InitialVer, P: t.P}
	for v, r := range t.Roots {
		n.Roots[v] = r
	}
	return n
}

// Set inserts or updates.
func (t *Tree) Set(k, v []byte) (updated bool) {
	t.Work, updated = t.set(t.Work, k, v)
	return updated
}

func (t *Tree) set(n *TNode, k, v []byte) (*TNode, bool) {
	if n == nil {
		return leaf(k, v), false
	}
	if n.IsLeaf() {
		switch bytes.Compare(k, n.Key) {
		case -1:
			return &TNode{Key: n.Key, Left: leaf(k, v), Right: n, H: 1, N: 2}, false
		case 1:
			nl := leaf(k, v)
			return &TNode{Key: nl.Key, Left: n, Right: nl, H: 1, N: 2}, false
		default:
			return leaf(k, v), true
		}
	}
	c := n.copyInner()
	var updated bool
	if bytes.Compare(k, n.Key) < 0 {
		c.Left, updated = t.set(n.Left, k, v)
	} else {
		c.Right, updated = t.set(n.Right, k, v)
	}
	if updated {
		return c, true
	}
	c.measure()
	return t.balance(c), false
}

// Remove deletes a key.
func (t *Tree) Remove(k []byte) ([]byte, bool) {
	if t.Work == nil {
		return nil, false
	}
	nr, _, val, removed := t.remove(t.Work, k)
	if !removed {
		return nil, false
	}
	t.Work = nr
	return val, true
}

// remove returns (new subtree, new leftmost key of this subtree if it changed, value, removed).
func (t *Tree) remove(n *TNode, k []byte) (*TNode, []byte, []byte, bool) {
	if n.IsLeaf() {
		if bytes.Equal(k, n.Key) {
			return nil, nil, n.Value, true
		}
		return n, nil, nil, false
	}
	if bytes.Compare(k, n.Key) < 0 {
		l, newKey, val, removed := t.remove(n.Left, k)
		if !removed {
			return n, nil, nil, false
		}
		if l == nil {
			return n.Right, n.Key, val, true
		}
		c := n.copyInner()
		c.Left = l
		c.measure()
		return t.balance(c), newKey, val, true
	}
	r, newKey, val, removed := t.remove(n.Right, k)
	if !removed {
		return n, nil, nil, false
	}
	if r == nil {
		return n.Left, nil, val, true
	}
	c := n.copyInner()
	c.Right = r
	if newKey != nil {
		c.Key = newKey
	}
	c.measure()
	return t.balance(c), nil, val, true
}

func (t *Tree) rotR(x *TNode) *TNode {
	y := x.Left.copyInner()
	x2 := x.copyInner()
	x2.Left = y.Right
	y.Right = x2
	x2.measure()
	y.measure()
	return y
}

func (t *Tree) rotL(x *TNode) *TNode {
	y := x.Right.copyInner()
	x2 := x.copyInner()
	x2.Right = y.Left
	y.Left = x2
	x2.measure()
	y.measure()
	return y
}

func (t *Tree) balance(c *TNode) *TNode {
	b := int(c.Left.H) - int(c.Right.H)
	if b > 1 {
		if int(c.Left.Left.H)-int(c.Left.Right.H) >= 0 {
			t.P.LL++
			return t.rotR(c)
		}
		t.P.LR++
		c.Left = t.rotL(c.Left)
		return t.rotR(c)
	}
	if b < -1 {
		if int(c.Right.Left.H)-int(c.Right.Right.H) <= 0 {
			t.P.RR++
			return t.rotL(c)
		}
		t.P.RL++
		c.Right = t.rotR(c.Right)
		return t.rotL(c)
	}
	return c
}

// NextVersion is the number of the next commit.
func (t *Tree) NextVersion() int64 {
	if t.Cur == 0 && t.Latest == 0 && t.InitialVer > 0 {
		return t.InitialVer
	}
	return t.Cur + 1
}

// EmptyHash is the hash of the empty tree.
func EmptyHash() []byte {
	h := sha256.Sum256(nil)
	return h[:]
}

func putVarint(buf *bytes.Buffer, x int64) {
	var b [binary.MaxVarintLen64]byte
	n := binary.PutVarint(b[:], x)
	buf.Write(b[:n])
}

func putUvarint(buf *bytes.Buffer, x uint64) {
	var b [binary.MaxVarintLen64]byte
	n := binary.PutUvarint(b[:], x)
	buf.Write(b[:n])
}

func putBytes(buf *bytes.Buffer, bz []byte) {
	putUvarint(buf, uint64(len(bz)))
	buf.Write(bz)
}

// hashOf computes the hash a node has (or would have if committed at ver).
func hashOf(n *TNode, ver int64) []byte {
	if n == nil {
		return EmptyHash()
	}
	if n.Hash != nil {
		return n.Hash
	}
	v := n.Ver
	if v == 0 {
		v = ver
	}
	var buf bytes.Buffer
	putVarint(&buf, int64(n.H))
	putVarint(&buf, n.N)
	putVarint(&buf, v)
	if n.IsLeaf() {
		putBytes(&buf, n.Key)
		vh := sha256.Sum256(n.Value)
		putBytes(&buf, vh[:])
	} else {
		putBytes(&buf, hashOf(n.Left, ver))
		putBytes(&buf, hashOf(n.Right, ver))
	}
	h := sha256.Sum256(buf.Bytes())
	return h[:]
}

// WorkingHash is the hash the next commit would return.
func (t *Tree) WorkingHash() []byte { return hashOf(t.Work, t.NextVersion()) }

// Commit commits the working tree as the next version.
func (t *Tree) Commit() (int64, []byte) {
	v := t.NextVersion()
	nonce := uint32(0)
	var assign func(n *TNode)
	assign = func(n *TNode) {
		if n == nil || n.Ver != 0 {
			return
		}
		nonce++
		n.Ver = v
		n.Nonce = nonce
		if !n.IsLeaf() {
			assign(n.Left)
			assign(n.Right)
		}
		n.Hash = hashOf(n, v)
	}
	assign(t.Work)
	t.Roots[v] = t.Work
	t.Latest = v
	t.Cur = v
	return v, hashOf(t.Work, v)
}

// RootHash returns the root hash of a committed version.
func (t *Tree) RootHash(v int64) []byte { return hashOf(t.Roots[v], v) }

// Discard resets the working tree to its base version.
func (t *Tree) Discard() { t.Work = t.Roots[t.Cur] }

// Load makes v the base of the working tree.
func (t *Tree) Load(v int64) {
	t.Cur = v
	t.Work = t.Roots[v]
}

// PruneTo forgets versions <= n.
func (t *Tree) PruneTo(n int64) {
	for v := range t.Roots {
		if v <= n {
			delete(t.Roots, v)
		}
	}
}

// RollbackTo forgets versions > v and loads v.
func (t *Tree) RollbackTo(v int64) {
	for u := range t.Roots {
		if u > v {
			delete(t.Roots, u)
		}
	}
	t.Latest = v
	t.Load(v)
}

// ExportNode mirrors the exported node stream element.
type ExportNode struct {
	Key     []byte
	Value   []byte
	Version int64
	Height  int8
}

// Export returns the post-order stream of a subtree.
func Export(n *TNode) []ExportNode {
	var out []ExportNode
	var walk func(n *TNode)
	walk = func(n *TNode) {
		if n == nil {
			return
		}
		if !n.IsLeaf() {
			walk(n.Left)
			walk(n.Right)
		}
		out = append(out, ExportNode{Key: n.Key, Value: n.Value, Version: n.Ver, Height: n.H})
	}
	walk(n)
	return out
}

// NodeID identifies a stored node independently of its storage key.
type NodeID struct {
	Ver  int64
	Hash string
}

// Reachable adds the identities of all nodes under n to set.
func Reachable(n *TNode, set map[NodeID]*TNode) {
	if n == nil {
		return
	}
	id := NodeID{n.Ver, string(n.Hash)}
	if _, ok := set[id]; ok {
		return
	}
	set[id] = n
	if !n.IsLeaf() {
		Reachable(n.Left, set)
		Reachable(n.Right, set)
	}
}

// Height returns the height of a subtree (0 for nil).
func Height(n *TNode) int8 {
	if n == nil {
		return 0
	}
	return n.H
}

// Size returns the number of leaves.
func Size(n *TNode) int64 {
	if n == nil {
		return 0
	}
	return n.N
}

// Pairs returns the leaves in order.
func Pairs(n *TNode) []Pair {
	var out []Pair
	var walk func(n *TNode)
	walk = func(n *TNode) {
		if n == nil {
			return
		}
		if n.IsLeaf() {
			out = append(out, Pair{n.Key, n.Value})
			return
		}
		walk(n.Left)
		walk(n.Right)
	}
	walk(n)
	return out
}

// CheckShape verifies the structural invariants of a subtree: ordering,
// routing keys, sizes, heights and AVL balance.
func CheckShape(n *TNode) error {
	_, _, err := checkShape(n)
	return err
}

func checkShape(n *TNode) (min, max []byte, err error) {
	if n == nil {
		return nil, nil, nil
	}
	if n.IsLeaf() {
		if n.N != 1 {
			return nil, nil, fmt.Errorf("leaf size %d", n.N)
		}
		return n.Key, n.Key, nil
	}
	lmin, lmax, err := checkShape(n.Left)
	if err != nil {
		return nil, nil, err
	}
	rmin, rmax, err := checkShape(n.Right)
	if err != nil {
		return nil, nil, err
	}
	if bytes.Compare(lmax, n.Key) >= 0 || !bytes.Equal(rmin, n.Key) {
		return nil, nil, fmt.Errorf("routing key %x not the smallest key of the right subtree (lmax %x rmin %x)", n.Key, lmax, rmin)
	}
	if d := int(n.Left.H) - int(n.Right.H); d > 1 || d < -1 {
		return nil, nil, fmt.Errorf("unbalanced at %x: %d", n.Key, d)
	}
	return lmin, rmax, nil
}
