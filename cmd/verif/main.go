// Command verif is the CLI of the deterministic-simulation checks.
//
//	verif run <prop> <tier>          coordinator (what bin/check calls)
//	verif worker <prop> <tier> ...   worker process (internal)
//	verif exec <plan.json>           execute one plan, print the outcome as JSON
//	verif replay <replay.json>       re-execute a replay file in a fresh process
//	verif gen <prop> <tier> <run>    print the plan of a run
//	verif selftest determinism [prop...]
package main

import (
	"encoding/json"
	"fmt"
	"os"
	"runtime/pprof"
	"strconv"
	"time"

	"verif/checks"
	"verif/drv"
)

func usage() {
	fmt.Fprintln(os.Stderr, "usage: verif run|worker|exec|replay|gen|selftest ...")
	os.Exit(2)
}

func main() {
	if len(os.Args) < 2 {
		usage()
	}
	self, err := os.Executable()
	if err != nil {
		self = os.Args[0]
	}
	switch os.Args[1] {
	case "run":
		if len(os.Args) < 4 {
			usage()
		}
		c := checks.Get(os.Args[2])
		if c == nil {
			fmt.Fprintf(os.Stderr, "unknown property %s (have %v)\n", os.Args[2], checks.IDs())
			os.Exit(2)
		}
		tier := os.Args[3]
		if tier != "quick" && tier != "thorough" {
			usage()
		}
		os.Exit(checks.Coordinate(c, tier, self))
	case "worker":
		// worker <prop> <tier> <seed> <start> <stride> <count> [budget_s]
		if len(os.Args) < 8 {
			usage()
		}
		c := checks.Get(os.Args[2])
		seed, _ := strconv.ParseUint(os.Args[4], 10, 64)
		start, _ := strconv.Atoi(os.Args[5])
		stride, _ := strconv.Atoi(os.Args[6])
		count, _ := strconv.Atoi(os.Args[7])
		deadline := time.Now().Add(24 * time.Hour)
		if len(os.Args) > 8 {
			s, _ := strconv.Atoi(os.Args[8])
			deadline = time.Now().Add(time.Duration(s) * time.Second)
		}
		checks.Worker(c, seed, os.Args[3], start, stride, count, deadline)
	case "exec":
		if len(os.Args) < 3 {
			usage()
		}
		b, err := os.ReadFile(os.Args[2])
		if err != nil {
			fmt.Fprintln(os.Stderr, err)
			os.Exit(2)
		}
		var p drv.Plan
		if err := json.Unmarshal(b, &p); err != nil {
			fmt.Fprintln(os.Stderr, err)
			os.Exit(2)
		}
		c := checks.Get(p.Property)
		if c == nil {
			fmt.Fprintf(os.Stderr, "unknown property %q\n", p.Property)
			os.Exit(2)
		}
		go func() {
			time.Sleep(c.RunTimeout)
			fmt.Fprintln(os.Stderr, "WATCHDOG: run exceeded its time limit; goroutines:")
			_ = pprof.Lookup("goroutine").WriteTo(os.Stderr, 2)
			os.Exit(3)
		}()
		p.Expect = nil
		out := checks.SafeExec(c, &p)
		_ = json.NewEncoder(os.Stdout).Encode(map[string]interface{}{"out": out})
	case "shrink":
		if len(os.Args) < 4 {
			usage()
		}
		os.Exit(checks.ShrinkFile(os.Args[2], os.Args[3], self))
	case "dump":
		// dump <plan.json>: run the steps without oracles, print the disk after every step
		b, err := os.ReadFile(os.Args[2])
		if err != nil {
			fmt.Fprintln(os.Stderr, err)
			os.Exit(2)
		}
		var p drv.Plan
		if err := json.Unmarshal(b, &p); err != nil {
			fmt.Fprintln(os.Stderr, err)
			os.Exit(2)
		}
		h := drv.Hooks{After: func(w *drv.World, s drv.Step) *drv.Violation {
			fmt.Printf("--- after %s (retained %v cur %d)\n", s.String(), w.M.Versions(), w.M.Cur)
			if w.Sim != nil {
				if os.Getenv("VERIF_DUMP_LOG") != "" {
					for _, rec := range w.Sim.Log(0, w.Sim.LogLen()) {
						if rec.Step != s.ID {
							continue
						}
						fmt.Printf("  write #%d:\n", rec.Seq)
						for _, op := range rec.Ops {
							if op.Del {
								fmt.Printf("    del %x\n", op.K)
							} else {
								fmt.Printf("    set %x = %x\n", op.K, op.V)
							}
						}
					}
				}
				fmt.Print(w.Sim.String())
			}
			return nil
		}}
		res := drv.RunPlan(&p, p.Config, h)
		if res.Vio != nil {
			fmt.Println("VIOLATION:", res.Vio.Error())
		}
	case "replay":
		if len(os.Args) < 3 {
			usage()
		}
		os.Exit(checks.ReplayFile(os.Args[2], self, false))
	case "gen":
		if len(os.Args) < 5 {
			usage()
		}
		c := checks.Get(os.Args[2])
		run, _ := strconv.Atoi(os.Args[4])
		p := c.Gen(checks.BaseSeed(), run, os.Args[3])
		p.Property, p.Seed, p.Run = c.ID, checks.BaseSeed(), run
		b, _ := json.MarshalIndent(p, "", " ")
		fmt.Println(string(b))
	case "selftest":
		os.Exit(checks.Selftest(os.Args[2:], self))
	default:
		usage()
	}
}
