#!/usr/bin/env python3
"""Regenerates MANIFEST.json from the table below (kept in one place so that the
manifest stays valid and consistent while checks are added)."""
import json, os, subprocess
ROOT = os.path.dirname(os.path.dirname(os.path.abspath(__file__)))

BASELINE_OFF = ("cd /repo && export GOFLAGS=-mod=mod GOPROXY=off GOSUMDB=off && "
                "for m in . cmd/legacydump v2 v2/migrate; do (cd $m && go test -vet=off -count=1 -timeout 25m ./...) || exit 1; done")

# id -> (level, technique, level text, level note, design ref)
CHECKS = {}
def chk(id, level, technique, text, note, ref):
    CHECKS[id] = dict(level=level, technique=technique, text=text, note=note, ref=ref)

chk("C01", "exploration", "deterministic simulation: seeded histories x configurations on a simulated disk, lock-step refinement against a versioned-map model after every step, configuration twin",
    "Seeded search over histories (set/remove/commit/discard/reopen/load/prune/rollback) and configurations (cache, fast index, flush threshold, sync, initial version, backend); after every step every read of the working state and of every retained version is compared with the versioned-map model R1. Evidence of absence within the stated bounds, not a proof.",
    "Trusts R1 (ref/vmap.go), the SimDB storage model (atomic ordered batch writes) and Go's runtime. Keys non-empty.", "DESIGN.md §5 C01")

NOT_YET = {
}

def main():
    props = [json.loads(l)["id"] for l in open(os.path.join(ROOT, "properties.jsonl"))]
    hooks_commits = []
    try:
        out = subprocess.run(["git", "-C", "/repo", "log", "--format=%H %s"], capture_output=True, text=True).stdout
        for line in out.splitlines():
            h, _, s = line.partition(" ")
            if s.startswith("verif hooks:") or s.startswith("hooks:"):
                hooks_commits.append(h)
    except Exception:
        pass
    m = {
        "version": 1,
        "setup_cmd": "bin/setup",
        "hooks": {
            "guard": "verif",
            "enable": "go build -tags verif (bin/check builds the harness module, which replaces github.com/cosmos/iavl with /repo, with -tags verif)",
            "baseline_off_cmd": BASELINE_OFF,
            "source_commits": hooks_commits,
            "add_only": True,
        },
        "engines": [
            {"name": "drv", "path": "drv/", "serves_properties": [p for p in props if p in CHECKS and p not in ("C18", "C19", "C20")],
             "kind_free_text": "v1 driver: explicit replayable plans executed on the real MutableTree over the simulated disk (SimDB) in lock-step with reference models R1/R2/R3; crash-cut and storage-fault enumeration; cooperative scheduler for concurrent runs"},
        ],
        "checks": [],
        "notes": "All checks: bin/check <id> <quick|thorough>; exit 0 held, 1 VIOLATION (replay file under replays/), 2 infrastructure. Known findings: KNOWN_FINDINGS.txt. Replay: bin/check replay <file>.",
        "not_applicable": [],
    }
    for p in props:
        if p in CHECKS:
            c = CHECKS[p]
            m["checks"].append({
                "property_id": p,
                "quick_cmd": f"bin/check {p} quick",
                "thorough_cmd": f"bin/check {p} thorough",
                "evidence_file": f"evidence/{p}.json",
                "replay_cmd_template": "bin/check replay {path}",
                "engine": "drv",
                "level_claimed": {"category": c["level"], "text": c["text"], "design_ref": c["ref"]},
                "level_note": c["note"],
                "technique": c["technique"],
            })
        else:
            m["not_applicable"].append({"property_id": p, "reason": NOT_YET.get(p, "check not built yet in this session (planned: deterministic simulation per DESIGN.md §5); not claimed until its check exists and is sound")})
    json.dump(m, open(os.path.join(ROOT, "MANIFEST.json"), "w"), indent=1)
    print("MANIFEST.json written:", len(m["checks"]), "checks,", len(m["not_applicable"]), "not applicable")

main()
