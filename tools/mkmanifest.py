#!/usr/bin/env python3
"""Regenerates MANIFEST.json from the table below (kept in one place so that the
manifest stays valid and consistent while checks are added)."""
import json, os, subprocess
ROOT = os.path.dirname(os.path.dirname(os.path.abspath(__file__)))

BASELINE_OFF = ("export GOFLAGS=-mod=mod GOPROXY=off GOSUMDB=off; "
                "for m in . cmd/legacydump v2 v2/migrate; do (cd /repo/$m && go test -json -vet=off -count=1 -timeout 25m ./...); done")

# id -> (level, technique, level text, level note, design ref)
CHECKS = {}
def chk(id, level, technique, text, note, ref):
    CHECKS[id] = dict(level=level, technique=technique, text=text, note=note, ref=ref)

chk("C01", "exploration", "deterministic simulation: seeded histories x configurations on a simulated disk, lock-step refinement against a versioned-map model after every step, configuration twin",
    "Seeded search over histories (set/remove/commit/discard/reopen/load/prune/rollback) and configurations (cache, fast index, flush threshold, sync, initial version, backend); after every step every read of the working state and of every retained version is compared with the versioned-map model R1. Evidence of absence within the stated bounds, not a proof.",
    "Trusts R1 (ref/vmap.go), the SimDB storage model (atomic ordered batch writes) and Go's runtime. Keys non-empty.", "DESIGN.md §5 C01")

T = "deterministic simulation: seeded histories x configurations executed on the real tree over a simulated disk, "
N = "Trusts the reference models under /verif/ref, the SimDB storage model (atomic, totally ordered batch writes), the Go runtime. Sampled histories: evidence within the stated bounds, not a proof."
chk("C02", "exploration", T + "differential against an independent IAVL+ implementation (R2) after every step, read-free twin",
    "Seeded search over write histories with reopen/prune/rollback/export-import points and interleaved bundles of read-only calls (incl. proofs on the working tree); every Hash/WorkingHash/commit hash/per-version hash is compared with R2, an independent implementation of the documented IAVL+ rules that never sees reads, reopenings or pruning.", N, "DESIGN.md §5 C02")
chk("C03", "exploration", T + "ICS-23 verification of every proof against the reference root plus negative cross-checks",
    "For every reached state (histories x restarts x pruning x configurations) every probe key's proof is verified with the ics23 library against R2's root hash, neighbours are compared with R1, error cases and negative cross-checks (other value/key/claim/root) are exercised. No fault or schedule dimension exists for this property; the simulator contributes the reachable states.", N + " ics23 verifier trusted. Empty values excluded (ICS-23 cannot prove them).", "DESIGN.md §5 C03")
chk("C07", "exploration", T + "fast-path vs tree-walk vs model after every step; raw audit of the f/m key spaces on the simulated disk with an independent codec",
    "Histories in which every (re)open independently chooses fast index on/off and the load target; every read path is compared with R1 after every step (also on handles opened with the index disabled, which must not answer from an index they do not maintain); with the index enabled the raw index entries and label are decoded from the simulated disk after every commit/open/rollback/import.", N, "DESIGN.md §5 C07")
chk("C08", "exploration", T + "exhaustive bound-set enumeration per reached state on all three iterator implementations and the callback forms",
    "For sampled states of seeded histories the full (start,end,direction) cross product of a bound set is iterated through every iteration interface and compared with R1's range incl. Domain/termination/Error/stop points. No fault or schedule dimension; faults during iteration are C17, concurrency C06.", N, "DESIGN.md §5 C08")
chk("C11", "exploration", T + "shape invariants vs R2 after every step; storage reads per lookup counted at the storage seam on a cache-less restart",
    "Ascending/descending/alternating/random insertion orders with removals; Height/Size vs R2 and the AVL bound after every step; rank/select inverse; per-lookup count of stored nodes read measured by the simulated disk with cache size 0.", N, "DESIGN.md §5 C11")
chk("C12", "exploration", T + "conservation audit: full scan of the simulated disk decoded by an independent codec vs reachability from the model's retained versions after every structural step",
    "After every commit/prune/rollback/reopen/import the raw disk is decoded and the stored node identities are compared with the union of R2's reachable sets (no missing, extra or duplicate node), child links, root markers, (v,0)/(v,1) exclusivity, fast index.", N, "DESIGN.md §5 C12")
chk("C14", "exploration", T + "version-API audit for every version number 0..latest+1 after every structural step, live and on a freshly opened handle",
    "Histories with no-op commits, tiny trees, pruning, rollback, re-opening at older versions and identical/different re-commits; VersionExists/AvailableVersions/GetImmutable/LoadVersion/GetVersioned/GetLatestVersion vs R1's contiguous range before and after a clean restart; commit numbering and re-commit semantics in the step oracle.", N, "DESIGN.md §5 C14")

chk("C04", "exploration", T + "full audit of every later version (contents, hashes, ICS-23 proofs, version APIs) after every deletion request, before and after a simulated clean restart; byte-identical disk for rejected requests",
    "Histories biased to reference roots, empty versions, single-leaf roots reused by later trees and rollbacks; DeleteVersionsTo with arbitrary targets, flush thresholds that split one deletion over several physical batches, Exporters pinning versions.", N + " Synchronous pruning only (async pruning is C06).", "DESIGN.md §5 C04")
chk("C09", "exploration", T + "from the first rollback on, every read/hash/version API/raw-disk audit is compared with models that are by construction the history that ended at v",
    "Histories with discards, LoadVersionForOverwriting and DeleteVersionsFrom+reload for every kind of target, repeated and after pruning, followed by arbitrary continuations; real MemDB/GoLevelDB in a share of runs. The real 'twin' of DESIGN.md is subsumed: R1/R2 are the never-rolled-back history, and the raw-disk audit shows nothing of the erased versions survives.", N, "DESIGN.md §5 C09")
chk("C15", "exploration", T + "normal-form change sets computed from the versioned-map model vs TraverseStateChanges; SaveChangeSet and full replay into an empty tree",
    "Histories with repeated writes of one key per version, no-op and empty versions, pruning; every extracted change set whose predecessor is retained is compared with R1's normal form; replay of all change sets reproduces contents (and hashes for normal-form runs). No fault or schedule dimension.", N, "DESIGN.md §5 C15")

chk("C05", "fault_enumeration", "deterministic simulation with crash injection: fault-free run records the physical write log of the simulated disk; every boundary between two physical writes of every multi-write step is enumerated, the store is reopened on that image and compared with the model before/after the step; retry and continuation must be canonical",
    "Cut positions are enumerated exhaustively for each explored history (commit, deletion of old versions, rollback, import commit, fast-index build/rebuild); histories, flush thresholds (150..default) and the reopening configuration are sampled; one run in ten starts from a database written by the real legacy library, one per batch is a ~21 000-node import (24 sampled cuts); a third of the runs (mode nested) add SECOND stops inside the recovery (open on the crash image + repeated operation) and stops after which the application commits other writes under the same version number with the opposite index setting; one run in ten (mode async) is a writer with background pruning and readers under the seeded scheduler of C06, whose interleaved write log (deletion and commit writes sharing one batch) is cut at up to 24 boundaries: the image must load, list only versions between what had returned and what had been started/requested, and every listed version must be complete. Old-or-new is decided on the whole observable state (version APIs, all reads of all retained versions through walk/fast path/iteration, hashes); an operation over several versions carried out for some of them only is told apart from a damaged state (intermediate-version, listed finding; retry must still succeed).", "Storage model of the statement: atomic, totally ordered batch writes (no torn batches, reordering or lost un-synced writes). " + N, "DESIGN.md §5 C05")
chk("C18", "exploration", "deterministic simulation of storage programs: one seeded program of point ops, batches (incl. reuse after write/close), forward/reverse iterators over all bound shapes and nested prefix views executed on MemDB, GoLevelDB (real files, clean close/reopen), PrefixDB stacks and a sorted-map model; results and full root contents compared after every step; a fifth of the runs are concurrent programs under the seeded cooperative scheduler (one writer of batches, 1-3 readers taking snapshots of MemDB / PrefixDB(MemDB), guarded yield point between the operations of a batch write, lock-probe rule): every snapshot must be the contents after a whole number of batches",
    "Seeded sequential programs over a byte alphabet containing 0x00 and 0xFF with nested prefixes incl. 0xFF runs; every result is compared with a sorted-map model and across backends; prefix isolation is checked on the shared parent store after every step. Concurrent mode: seeded schedules of a batch writer and snapshot readers on the in-memory backend; a torn batch (a snapshot that is not the state after a whole number of batches) is a violation; schedules are recorded, replayed and minimised.", "Batch atomicity under concurrent readers is decided for MemDB and PrefixDB over it only (GoLevelDB's batch write is third-party code without a seam; it is trusted); power loss is not simulated for the real backends. The sorted-map model is the specification.", "DESIGN.md §5 C18, §11.7")

chk("C17", "fault_enumeration", "deterministic simulation with storage fault injection: every single storage call (by kind and index) of every probe operation fails once on a fork of the simulated disk; error-or-fault-free-answer for reads, no success after a failed write, reopen to old-or-new after failed write operations; seeded two-fault sequences",
    "Single-fault positions are enumerated exhaustively per explored (history, probe); histories and probes (17 read kinds, 7 write kinds incl. import and unchanged commits) are sampled; one run in eight starts from a database written by the real legacy library; a fifth are whole histories under random fault sequences; one per 350 is a ~21 000-node import under faults. A write operation that succeeds under a failed read must leave the fault-free durable contents. Signatures carry the API, whether anything was flushed, the failing call kind, the innermost iavl call site of the injected failure and the symptom.", "A failed storage call returns an error and has no effect. After a reported error the handle is discarded. APIs without an error result are outside the statement. " + N, "DESIGN.md §5 C17")

chk("C10", "exploration", T + "export/import steps inside lock-step histories (stream vs R2 post-order, imported tree vs R1/R2, future hashes); simulated faulty exporter->importer channel and generated hostile node sequences against both importers",
    "Fidelity: export of every kind of retained version (empty, single leaf, inherited root, >10 000 nodes, trees holding the empty key in an eighth of the runs) through both codecs, imported tree audited and continued. Totality: mutated and generated ExportNode sequences fed to Add/Commit by callers that give up at the first error or keep feeding and commit anyway; no panic/hang, nothing visible unless Commit succeeded, committed imports internally consistent and holding every accepted leaf.", N + " Import versions capped at 10^6 (allocation of version+1 nonces).", "DESIGN.md §5 C10")

chk("C06", "exploration", "deterministic simulation of schedules: writer, readers and iavl's own pruner/exporter goroutines run as tasks of a seeded cooperative scheduler (guarded hooks in iavl, lock-free storage calls and operation boundaries are yield points, simulated clock for the pruner's sleeps); race-detector build whose hand-off is hidden from the detector; every read compared with the precomputed contents of its version",
    "Seeded search over schedules x histories x {cache 0/small/large} x {fast index on/off} x {sync, async pruning, SetCommitting bracket with deletion requests between or inside the brackets}. Oracles: exact contents/proofs/export stream per version, no data race (happens-before detector on a serialised execution whose scheduler hand-offs create no happens-before edges), pinned versions not deleted, no panic, no deadlock. Recorded schedules are explicit, replayable and minimised. One run in sixteen (mode commit-window) queues real reader goroutines on the library's own locks right after every physical write of a commit and lets the locks decide what they see.", "Preemption only at yield points (races between yield points are still found by the HB detector). Readers only hold versions the writer does not prune (lease registry). " + N, "DESIGN.md §5 C06")

chk("C19", "exploration", "deterministic simulation: normal-form histories executed in lock-step on the SQLite-backed v2 tree (real SQLite files in a per-run scratch directory), the v1 tree on the simulated disk and the reference models; option swarm; simulator-owned order of the two halves of every SaveVersion",
    "Seeded normal-form histories (incl. empty versions and trees shrinking to empty) x option swarm (checkpoint interval, height filter, eviction depth, sharding, checkpoint memory); at every commit v2 hash = v1 hash = R2 hash, after every step Get/Has/Size/Height and forward/reverse/inclusive iterators over the bound set vs R1.", "v2 runs on real SQLite files (third party, trusted); only API results enter the event log. " + N, "DESIGN.md §5 C19")
chk("C20", "exploration", "deterministic simulation: normal-form histories on v2 with close/reopen points, LoadVersion of every retained target on fresh handles, continuation from loaded versions, DeleteVersionsTo whose asynchronous progress in both writer loops is owned by the simulator through guarded prune gates (0, 1, few, all steps granted), snapshots (save / export pre|post + import)",
    "Reload of every retained version vs R1/R2, continuation hashes vs the uninterrupted run, loadability after pruning whatever the prune progress at close, snapshot import; prune progress tokens make 'close immediately', 'save interrupts a half-done prune' and 'prune completes' replayable.", "Clean close/reopen only: point-in-time crash images of SQLite files cannot be produced deterministically from outside. SQLite trusted. " + N, "DESIGN.md §5 C20")

chk("C13", "exploration", T + "raw-disk format audit with an independent codec after every structural step (library -> independent decoder), database images written by the independent encoder and opened by the library, and stored-byte corruption faults / mutated encodings against every decoder",
    "Both directions of the format check on seeded histories; decoder totality by direct calls on mutated valid encodings and random bytes (bit flips, truncation, extension, length inflation, valid prefix + garbage) and by corrupting stored root nodes, root markers, fast nodes, the label and leaves on the simulated disk before the calls that decode them.", N + " Totality is sampled, not proved; wrong data from corrupted payloads is not judged (no checksums in the format).", "DESIGN.md §5 C13")

chk("C16", "exploration", "deterministic simulation: a seeded legacy history is executed by the real legacy library (iavl v0.20.0, separate legacygen binary), its raw dump is loaded into the simulated disk, the current library opens it and continues with a generated new-format history; every version meant to remain is compared with what the legacy library reported and with the reference after every structural step",
    "Legacy histories with and without legacy-side deletions; commits (incl. without writes on a legacy root), DeleteVersionsTo below/at/above the boundary, LoadVersionForOverwriting to legacy and new versions, reopenings with any fast-index setting and small flush thresholds.", "The legacy library's own reports are the oracle for legacy versions; R2 is confirmed against them before it is trusted for new versions. Versions not meant to remain are not judged (pruning below the boundary may be deferred). " + N, "DESIGN.md §5 C16")

NOT_YET = {
}

def main():
    props = [json.loads(l)["id"] for l in open(os.path.join(ROOT, "properties.jsonl"))]
    hooks_commits = []
    try:
        out = subprocess.run(["git", "-C", "/repo", "log", "--format=%H %s"], capture_output=True, text=True).stdout
        for line in out.splitlines():
            h, _, s = line.partition(" ")
            if s.startswith("verif hooks:") or s.startswith("hooks:"):
                hooks_commits.append(h)
    except Exception:
        pass
    m = {
        "version": 1,
        "setup_cmd": "bin/setup",
        "hooks": {
            "guard": "verif",
            "enable": "go build -tags verif (bin/check builds the harness module, which replaces github.com/cosmos/iavl with /repo, with -tags verif)",
            "baseline_off_cmd": BASELINE_OFF,
            "source_commits": hooks_commits,
            "add_only": True,
        },
        "engines": [
            {"name": "drv", "path": "drv/", "serves_properties": [p for p in props if p in CHECKS and p not in ("C18", "C19", "C20")],
             "kind_free_text": "v1 driver: explicit replayable plans executed on the real MutableTree over the simulated disk (SimDB) in lock-step with reference models R1/R2/R3; crash-cut and storage-fault enumeration; cooperative scheduler for concurrent runs"},
            {"name": "drvdb", "path": "drvdb/", "serves_properties": [p for p in props if p in CHECKS and p == "C18"],
             "kind_free_text": "storage-backend driver: seeded programs on MemDB/GoLevelDB/PrefixDB stacks vs a sorted-map model"},
            {"name": "drv2", "path": "drv2/", "serves_properties": [p for p in props if p in CHECKS and p in ("C19", "C20")],
             "kind_free_text": "v2 driver: normal-form histories on the SQLite-backed v2 tree vs v1 and the reference models; simulator-owned prune progress"},
        ],
        "checks": [],
        "notes": "All checks: bin/check <id> <quick|thorough>; exit 0 held, 1 VIOLATION (replay file under replays/), 2 infrastructure. Known findings: KNOWN_FINDINGS.txt. Replay: bin/check replay <file>.",
        "not_applicable": [],
    }
    for p in props:
        if p in CHECKS:
            c = CHECKS[p]
            m["checks"].append({
                "property_id": p,
                "quick_cmd": f"bin/check {p} quick",
                "thorough_cmd": f"bin/check {p} thorough",
                "evidence_file": f"evidence/{p}.json",
                "replay_cmd_template": "bin/check replay {path}",
                "engine": "drvdb" if p == "C18" else ("drv2" if p in ("C19", "C20") else "drv"),
                "level_claimed": {"category": c["level"], "text": c["text"], "design_ref": c["ref"]},
                "level_note": c["note"],
                "technique": c["technique"],
            })
        else:
            m["not_applicable"].append({"property_id": p, "reason": NOT_YET.get(p, "check not built yet in this session (planned: deterministic simulation per DESIGN.md §5); not claimed until its check exists and is sound")})
    json.dump(m, open(os.path.join(ROOT, "MANIFEST.json"), "w"), indent=1)
    print("MANIFEST.json written:", len(m["checks"]), "checks,", len(m["not_applicable"]), "not applicable")

main()
