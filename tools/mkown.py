#!/usr/bin/env python3
"""Generates the hand-written sensitivity mutations (DESIGN.md §5 'Sensitivity')
as patch files under sensitivity/own/, from (file, old, new) triples applied to
a scratch copy of /repo's HEAD."""
import os, subprocess, tempfile, shutil, sys
M = [
 # name, property, file, old, new
 ("c02-lftbalance", "C02", "mutable_tree.go", "if lftBalance >= 0 {", "if lftBalance > 0 {"),
 ("c02-hash-version-plus1", "C02", "node.go", "err = encoding.EncodeVarint(w, version)\n\tif err != nil {\n\t\treturn fmt.Errorf(\"writing version, %w\", err)", "err = encoding.EncodeVarint(w, version+int64(node.subtreeHeight/4))\n\tif err != nil {\n\t\treturn fmt.Errorf(\"writing version, %w\", err)"),
 ("c01-remove-no-key-patch", "C01", "mutable_tree.go", "\tif newKey != nil {\n\t\tnode.key = newKey\n\t}\n", "\tif newKey != nil && len(newKey) > 64 {\n\t\tnode.key = newKey\n\t}\n"),
 ("c01-rollback-keeps-overlay", "C01", "mutable_tree.go", "\tif !tree.skipFastStorageUpgrade {\n\t\ttree.unsavedFastNodeAdditions = &sync.Map{}\n\t\ttree.unsavedFastNodeRemovals = &sync.Map{}\n\t}\n}\n\n// GetVersioned", "\tif !tree.skipFastStorageUpgrade {\n\t\ttree.unsavedFastNodeRemovals = &sync.Map{}\n\t}\n}\n\n// GetVersioned"),
 ("c03-leaf-version-tree", "C03", "proof_ics23.go", "\tif node.nodeKey != nil {\n\t\tnodeVersion = node.nodeKey.version\n\t}\n\treturn &ics23.ExistenceProof{", "\tif node.nodeKey != nil && node.nodeKey.version > t.version {\n\t\tnodeVersion = node.nodeKey.version\n\t}\n\treturn &ics23.ExistenceProof{"),
 ("c03-left-neighbour-idx", "C03", "proof_ics23.go", "leftkey, _, err := t.GetByIndex(idx - 1)", "leftkey, _, err := t.GetByIndex(idx - 1 - (idx / 7))"),
 ("c04-latest-lt", "C04", "nodedb.go", "if latest <= toVersion {", "if latest < toVersion {"),
 ("c04-no-reader-pin", "C04", "nodedb.go", "\t\tif v >= first && v <= toVersion && r != 0 {", "\t\tif v >= first && v < toVersion && r != 0 {"),
 ("c05-root-first", "C05", "mutable_tree.go", "\tfor _, node := range newNodes {\n\t\tverifYield(\"saveNewNodes.loop\")", "\tfor i, j := 0, len(newNodes)-1; i < j; i, j = i+1, j-1 {\n\t\tnewNodes[i], newNodes[j] = newNodes[j], newNodes[i]\n\t}\n\tfor _, node := range newNodes {\n\t\tverifYield(\"saveNewNodes.loop\")"),
 ("c05-label-last", "C05", "mutable_tree.go", "\tif err := tree.ndb.SetFastStorageVersionToBatch(latestVersion); err != nil {\n\t\treturn err\n\t}\n\tif err := tree.saveFastNodeAdditions(); err != nil {\n\t\treturn err\n\t}\n\treturn tree.saveFastNodeRemovals()", "\tif err := tree.saveFastNodeAdditions(); err != nil {\n\t\treturn err\n\t}\n\tif err := tree.saveFastNodeRemovals(); err != nil {\n\t\treturn err\n\t}\n\treturn tree.ndb.SetFastStorageVersionToBatch(latestVersion)"),
 ("c06-getnode-nolock", "C06", "nodedb.go", "func (ndb *nodeDB) GetNode(nk []byte) (*Node, error) {\n\tndb.mtx.Lock()\n\tdefer ndb.mtx.Unlock()\n", "func (ndb *nodeDB) GetNode(nk []byte) (*Node, error) {\n"),
 ("c06-publish-before-commit", "C06", "mutable_tree.go", "\tverifYield(\"SaveVersion.beforeCommit\")\n\tif err := tree.ndb.Commit(); err != nil {", "\ttree.ndb.resetLatestVersion(version)\n\tverifYield(\"SaveVersion.beforeCommit\")\n\tif err := tree.ndb.Commit(); err != nil {"),
 ("c06-no-version-readers", "C06", "export.go", "\ttree.ndb.incrVersionReaders(tree.version)\n", "\tif tree.version%2 == 0 {\n\t\ttree.ndb.incrVersionReaders(tree.version)\n\t}\n"),
 ("c07-skip-fast-removals", "C07", "mutable_tree.go", "\treturn tree.saveFastNodeRemovals()", "\tif tree.version%3 == 2 {\n\t\treturn nil\n\t}\n\treturn tree.saveFastNodeRemovals()"),
 ("c07-getversioned-no-guard", "C07", "mutable_tree.go", "if err == nil && fastNode != nil && fastNode.GetVersionLastUpdatedAt() <= version {", "if err == nil && fastNode != nil && fastNode.GetVersionLastUpdatedAt() <= version+1 {"),
 ("c08-afterstart-le", "C08", "iterator.go", "afterStart := t.start == nil || bytes.Compare(t.start, node.key) < 0", "afterStart := t.start == nil || bytes.Compare(t.start, node.key) <= 0"),
 ("c08-unsaved-gt", "C08", "unsaved_fast_iterator.go", "isUnsavedNext = diskKeyStr >= nextUnsavedKey", "isUnsavedNext = diskKeyStr > nextUnsavedKey"),
 ("c09-dvf-from-plus1", "C09", "nodedb.go", "if err = ndb.traverseRange(nodeKeyPrefixFormat.KeyInt64(newFromVersion), nodeKeyPrefixFormat.KeyInt64(latest+1)", "if err = ndb.traverseRange(nodeKeyPrefixFormat.KeyInt64(newFromVersion), nodeKeyPrefixFormat.KeyInt64(latest)"),
 ("c10-import-nonce-off", "C10", "import.go", "\t\tnonce: i.nonces[exportNode.Version] + 1,", "\t\tnonce: i.nonces[exportNode.Version] + 1 + uint32(exportNode.Height/3),"),
 ("c10-skip-validate", "C10", "import.go", "\tif err := node.validate(); err != nil {\n\t\treturn err\n\t}\n", ""),
 ("c11-getbyindex-both-children", "C11", "node.go", "\tif index < leftNode.size {\n\t\treturn leftNode.getByIndex(t, index)\n\t}\n", "\tif _, err := node.getRightNode(t); err != nil {\n\t\treturn nil, nil, err\n\t}\n\tif rn, _ := node.getRightNode(t); rn != nil && !rn.isLeaf() {\n\t\t_, _ = rn.getLeftNode(t)\n\t\t_, _ = rn.getRightNode(t)\n\t}\n\tif index < leftNode.size {\n\t\treturn leftNode.getByIndex(t, index)\n\t}\n"),
 ("c12-refroot-marker-kept", "C12", "nodedb.go", "\tif err := ndb.deleteFromPruning(ndb.nodeKey(literalRootKey)); err != nil {\n\t\treturn err\n\t}\n\tfor _, k := range orphanKeys {", "\tif rootKey == nil || bytes.Equal(rootKey, literalRootKey) {\n\t\tif err := ndb.deleteFromPruning(ndb.nodeKey(literalRootKey)); err != nil {\n\t\t\treturn err\n\t\t}\n\t}\n\tfor _, k := range orphanKeys {"),
 ("c13-swap-size-height", "C13", "node.go", None, None),
 ("c14-first-version-off", "C14", "nodedb.go", "\t\tndb.resetFirstVersion(version + 1)\n\t}\n\n\treturn nil\n}\n\nfunc (ndb *nodeDB) DeleteFastNode", "\t\tndb.resetFirstVersion(version)\n\t}\n\n\treturn nil\n}\n\nfunc (ndb *nodeDB) DeleteFastNode"),
 ("c14-recommit-any-hash", "C14", "mutable_tree.go", "(existingRoot != nil && bytes.Equal(existingRoot.hash, newHash))", "(existingRoot != nil && tree.root != nil && existingRoot.size == tree.root.size)"),
 ("c15-shared-lt", "C15", "diff.go", "shared := node.nodeKey.version <= prevVersion", "shared := node.nodeKey.version < prevVersion"),
 ("c17-ignore-child-error", "C17", "node.go", "\tleftNode, err := t.ndb.GetNode(node.leftNodeKey)\n\tif err != nil {\n\t\treturn nil, err\n\t}\n\treturn leftNode, nil", "\tleftNode, err := t.ndb.GetNode(node.leftNodeKey)\n\tif err != nil && leftNode == nil && node.subtreeHeight > 3 {\n\t\treturn nil, err\n\t}\n\tif leftNode == nil {\n\t\treturn &Node{key: node.key, value: []byte{}, size: 1}, nil\n\t}\n\treturn leftNode, nil"),
 ("c17-commit-ignores-write-error", "C17", "nodedb.go", "\tif err != nil {\n\t\treturn fmt.Errorf(\"failed to write batch, %w\", err)\n\t}\n", "\tif err != nil && ndb.opts.Sync {\n\t\treturn fmt.Errorf(\"failed to write batch, %w\", err)\n\t}\n"),
 ("c16-legacy-mode-bit", "C16", "node.go", "\t\tif len(node.rightNodeKey) == hashSize {\n\t\t\tmode += ModeLegacyRightNode\n\t\t}", "\t\tif len(node.rightNodeKey) == hashSize && len(node.leftNodeKey) != hashSize {\n\t\t\tmode += ModeLegacyRightNode\n\t\t}"),
 ("c18-memdb-skipequal", "C18", "db/memdb.go", "\t\t\tskipEqual = end\n", ""),
]
def main():
    root = os.path.dirname(os.path.dirname(os.path.abspath(__file__)))
    outdir = os.path.join(root, "sensitivity", "own")
    tmp = tempfile.mkdtemp(prefix="mkown-")
    try:
        subprocess.check_call(["git", "-C", "/repo", "worktree", "add", "-q", "--detach", tmp + "/wt", "HEAD"])
        wt = tmp + "/wt"
        for name, prop, f, old, new in M:
            p = os.path.join(wt, f)
            s = open(p).read()
            if name == "c13-swap-size-height":
                # symmetric change of encoder and decoder: invisible to a round-trip test
                s2 = s.replace("\terr := encoding.EncodeVarint(w, int64(node.subtreeHeight))\n\tif err != nil {\n\t\treturn fmt.Errorf(\"writing height, %w\", err)\n\t}\n\terr = encoding.EncodeVarint(w, node.size)\n\tif err != nil {\n\t\treturn fmt.Errorf(\"writing size, %w\", err)\n\t}\n\n\t// Unlike writeHashBytes, key is written for inner nodes.",
                               "\terr := encoding.EncodeVarint(w, node.size)\n\tif err != nil {\n\t\treturn fmt.Errorf(\"writing size, %w\", err)\n\t}\n\terr = encoding.EncodeVarint(w, int64(node.subtreeHeight))\n\tif err != nil {\n\t\treturn fmt.Errorf(\"writing height, %w\", err)\n\t}\n\n\t// Unlike writeHashBytes, key is written for inner nodes.")
                s2 = s2.replace("\theight, n, err := encoding.DecodeVarint(buf)\n\tif err != nil {\n\t\treturn nil, fmt.Errorf(\"decoding node.height, %w\", err)\n\t}\n\tbuf = buf[n:]\n\theight8 := int8(height) // nolint:gosec // we perform the check in the line below\n\tif height != int64(height8) {\n\t\treturn nil, errors.New(\"invalid height, out of int8 range\")\n\t}\n\n\tsize, n, err := encoding.DecodeVarint(buf)\n\tif err != nil {\n\t\treturn nil, fmt.Errorf(\"decoding node.size, %w\", err)\n\t}\n\tbuf = buf[n:]\n",
                                 "\tsize, n, err := encoding.DecodeVarint(buf)\n\tif err != nil {\n\t\treturn nil, fmt.Errorf(\"decoding node.size, %w\", err)\n\t}\n\tbuf = buf[n:]\n\n\theight, n, err := encoding.DecodeVarint(buf)\n\tif err != nil {\n\t\treturn nil, fmt.Errorf(\"decoding node.height, %w\", err)\n\t}\n\tbuf = buf[n:]\n\theight8 := int8(height) // nolint:gosec // we perform the check in the line below\n\tif height != int64(height8) {\n\t\treturn nil, errors.New(\"invalid height, out of int8 range\")\n\t}\n")
                if s2.count("writing size") != 2 or s2 == s:
                    print("SKIP", name, "(anchor not found)"); continue
            else:
                if s.count(old) != 1:
                    print("SKIP", name, "(anchor count %d)" % s.count(old)); continue
                s2 = s.replace(old, new)
            open(p, "w").write(s2)
            r = subprocess.run(["go", "build", "./..."], cwd=wt, capture_output=True, text=True, env=dict(os.environ, GOFLAGS="-mod=mod", GOPROXY="off", GOSUMDB="off"))
            d = subprocess.run(["git", "-C", wt, "diff"], capture_output=True, text=True).stdout
            subprocess.check_call(["git", "-C", wt, "checkout", "-q", "--", "."])
            if r.returncode != 0:
                print("SKIP", name, "(does not compile)", r.stderr[-300:]); continue
            open(os.path.join(outdir, "%s.%s.diff" % (prop, name)), "w").write(d)
            print("ok", name)
    finally:
        subprocess.call(["git", "-C", "/repo", "worktree", "remove", "--force", tmp + "/wt"])
        shutil.rmtree(tmp, ignore_errors=True)
main()
