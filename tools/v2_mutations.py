import sys,subprocess,os,shutil,glob,re,json
# usage: VERIF_ROOT=<harness root> python3 tools/v2_mutations.py C19|C20 <runs> [m1 n3 ...]
# applies each mutation to <root>/repo/v2 (pristine copies are taken first and restored), rebuilds, runs the quick check,
# replays up to three replay files, prints mutation -> exit code -> signatures.
ROOT=os.environ.get('VERIF_ROOT','/tmp/agentB')
os.environ.update(dict(GOFLAGS='-mod=mod',GOPROXY='off',GOSUMDB='off',GOTOOLCHAIN='local',CGO_ENABLED='1',VERIF_ROOT=ROOT))
V2=ROOT+'/repo/v2/'
ORIG=ROOT+'/.build/orig/'
os.makedirs(ORIG,exist_ok=True)
for f in glob.glob(V2+'*.go'): shutil.copy(f,ORIG)
MUTS={
 'C19': [
  ('m1 deepHash returns dirty leaves to the pool','tree.go',
   '''			if !node.leftNode.dirty {
				tree.returnNode(node.leftNode)
			}''','''			tree.returnNode(node.leftNode)'''),
  ('m2 mutateNode keeps the old hash','tree.go',
   '''	node.hash = nil
	if node.isLeaf() {
		node.nodeKey = tree.nextLeafNodeKey()''','''	if node.isLeaf() {
		node.nodeKey = tree.nextLeafNodeKey()'''),
  ('m3 evictChildren before _hash','tree.go',
   '''	node._hash()

	// when heightFilter > 0 remove the leaf nodes from memory.''','''	if tree.shouldCheckpoint && depth >= tree.evictionDepth {
		node.evictChildren()
	}
	node._hash()

	// when heightFilter > 0 remove the leaf nodes from memory.'''),
  ('m4 ascending iterator: exclusive end treated as inclusive','iterator.go',
   '''	return bytes.Compare(key, i.end) >= 0
}''','''	return bytes.Compare(key, i.end) > 0
}'''),
  ('m5 reverse iterator: start bound exclusive','iterator.go',
   '''	return bytes.Compare(key, i.start) < 0
}''','''	return bytes.Compare(key, i.start) <= 0
}'''),
  ('m6 rotateLeft does not orphan/renumber the pivot (node.go)','node.go',
   '''	tree.addOrphan(node.right(tree))
	newNode := node.right(tree)
	tree.mutateNode(newNode)''','''	tree.addOrphan(node.right(tree))
	newNode := node.right(tree)'''),
 ],
 'C20': [
  ('n1 leaf orphans tagged with version-1','sqlite_batch.go',
   '''err = b.leafOrphan.Exec(orphan.Version(), int(orphan.Sequence()), b.tree.version)''','''err = b.leafOrphan.Exec(orphan.Version(), int(orphan.Sequence()), b.tree.version-1)'''),
  ('n2 replay does not reset the sequences per version','sqlite.go',
   '''			tree.version = int64(version - 1)
			tree.resetSequences()''','''			tree.version = int64(version - 1)'''),
  ('n3 tree prune deletes roots <= previous checkpoint','sqlite_writer.go',
   '''"DELETE FROM root WHERE version < ?"''','''"DELETE FROM root WHERE version <= ?"'''),
  ('n4 loadCheckpointRange takes every root for a checkpoint','sqlite.go',
   '''"SELECT version FROM root WHERE checkpoint = true ORDER BY version"''','''"SELECT version FROM root ORDER BY version"'''),
  ('n5 snapshot writeStep visits right before left','snapshot.go',
   '''	// traverse left
	err = snap.writeStep(snap.getLeft(node))
	if err != nil {
		return err
	}

	// traverse right
	return snap.writeStep(snap.getRight(node))''','''	// traverse left
	err = snap.writeStep(snap.getRight(node))
	if err != nil {
		return err
	}

	// traverse right
	return snap.writeStep(snap.getLeft(node))'''),
  ('n6 leaf prune also deletes leaf_delete rows of the checkpoint version','sqlite_writer.go',
   '''"DELETE FROM leaf_delete WHERE version < ?"''','''"DELETE FROM leaf_delete WHERE version <= ?+1"'''),
 ],
}
def build():
    r=subprocess.run('cd '+ROOT+' && go build -tags verif -o .build/verif ./cmd/verif',shell=True,capture_output=True,text=True)
    errs=[l for l in r.stderr.splitlines() if re.search(r'\.go:\d+:\d+: ',l) and 'sqlite3' not in l]
    if r.returncode!=0: print('BUILD FAILED',errs[:5]); return False
    return True
prop=sys.argv[1]; runs=sys.argv[2]; only=sys.argv[3:] 
for name,f,old,new in MUTS[prop]:
    if only and name.split()[0] not in only: continue
    src=open(ORIG+f).read()
    assert src.count(old)==1,(name,src.count(old))
    open(V2+f,'w').write(src.replace(old,new))
    shutil.rmtree(ROOT+'/replays',ignore_errors=True)
    ok=build()
    res='build-failed'
    if ok:
        env=dict(os.environ,VERIF_RUNS=runs)
        r=subprocess.run([ROOT+'/.build/verif','run',prop,'quick'],capture_output=True,text=True,env=env)
        sigs=re.findall(r'signature: (.*)',r.stdout)
        reps=re.findall(r'VIOLATION property=\S+ replay=(\S+)',r.stdout)
        rr=[]
        for rp in reps[:3]:
            x=subprocess.run([ROOT+'/.build/verif','replay',rp],capture_output=True,text=True)
            rr.append(x.returncode)
        summ=[l for l in r.stdout.splitlines() if l.startswith(prop+' quick')]
        print('MUTATION',name,'| exit',r.returncode,'| replay exits',rr)
        for s in sigs[:6]: print('    sig:',s)
        print('   ',summ)
        infra=[l for l in r.stdout.splitlines() if l.startswith('INFRA')]
        for l in infra[:3]: print('    ',l[:200])
    shutil.copy(ORIG+f,V2+f)
    sys.stdout.flush()
build()
