#!/bin/sh
# tools/mutcheck.sh <patch.diff> <check id>...
# Runs the given checks' quick tier against a seeded change WITHOUT touching
# /repo: the patch is applied to a scratch worktree of /repo's HEAD under
# $MUTDIR (default /tmp/mutrun.$$) and the harness is built with an alternative
# go.mod that replaces the iavl modules with that worktree. The worktree is
# removed afterwards. Prints one line per check:
#   <id> exit=<code> violations=<n> <first signature>
PATCH="$(readlink -f "$1")"; shift
cd /verif || exit 2
D="${MUTDIR:-/tmp/mutrun.$$}"
mkdir -p "$D"
cleanup() { git -C /repo worktree remove --force "$D/repo" >/dev/null 2>&1; rm -rf "$D"; }
trap cleanup EXIT INT TERM
git -C /repo worktree add -q --detach "$D/repo" HEAD || exit 2
git -C "$D/repo" apply "$PATCH" 2>/dev/null || git -C "$D/repo" apply --3way "$PATCH" >/dev/null 2>&1 || { echo "patch does not apply"; exit 2; }
sed "s#=> /repo/v2#=> $D/repo/v2#; s#=> /repo\$#=> $D/repo#" go.mod > "$D/go.mod"
cp go.sum "$D/go.sum"
for id in "$@"; do
  out=$(VERIF_MODFILE="$D/go.mod" VERIF_EVIDENCE_DIR="$D/evidence" VERIF_REPLAY_DIR="$D/replays" bin/check "$id" quick 2>&1)
  rc=$?
  sig=$(echo "$out" | grep -m1 "signature:" | sed 's/^ *signature: //')
  n=$(echo "$out" | grep -c "^VIOLATION")
  echo "$id exit=$rc violations=$n $sig"
  [ $rc -eq 2 ] && echo "$out" | tail -5
done
