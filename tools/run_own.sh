#!/bin/sh
# Runs every hand-written sensitivity mutation against its property's quick check.
cd /verif || exit 2
: > sensitivity/own/RESULTS.txt
for f in sensitivity/own/*.diff; do
  b=$(basename "$f" .diff); prop=${b%%.*}
  line=$(MUTDIR=/tmp/mutrun.own tools/mutcheck.sh "$f" "$prop" 2>&1 | head -3 | tr '\n' ' ')
  echo "$b :: $line" | tee -a sensitivity/own/RESULTS.txt
done
