#!/bin/sh
# tools/recheck_seeds.sh <prop>... — re-runs the owning check's quick tier against every kept
# seeded change of the given properties on the current harness and /repo HEAD
# (regression test of the harness itself). Output: sensitivity/RECHECK.txt
cd /verif || exit 2
for prop in "$@"; do
  for d in seeded/$prop-*; do
    [ -f "$d/patch.diff" ] || continue
    s=$(basename "$d")
    owner=$prop
    line=$(MUTDIR=/tmp/mutrun.re.$s tools/mutcheck.sh "$d/patch.diff" "$owner" 2>&1 | head -2 | tr '\n' ' ')
    echo "$s :: $line" | tee -a sensitivity/RECHECK.txt
  done
done
