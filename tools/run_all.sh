#!/bin/sh
# tools/run_all.sh [quick|thorough] [ids...] — runs the registered checks one after the other
# against /repo itself and prints one summary line each (used to regenerate evidence/).
cd /verif || exit 2
tier="${1:-quick}"; shift 2>/dev/null
ids="$*"
[ -z "$ids" ] && ids=$(python3 -c "import json; print(' '.join(c['property_id'] for c in json.load(open('MANIFEST.json'))['checks']))")
rc_all=0
for id in $ids; do
  out=$(bin/check "$id" "$tier" 2>&1); rc=$?
  echo "$id rc=$rc $(echo "$out" | grep -E "^$id (quick|thorough):" | tail -1)"
  [ $rc -ne 0 ] && { rc_all=1; echo "$out" | grep -E "VIOLATION|INFRA|signature" | head -10; }
done
exit $rc_all
