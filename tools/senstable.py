#!/usr/bin/env python3
"""Prints the sensitivity tables (markdown) from seeded/*/ and sensitivity/own/RESULTS.txt."""
import json, os, glob, re
root = os.path.dirname(os.path.dirname(os.path.abspath(__file__)))
print("#### Seeded changes produced by independent sub-agents (each confirmed in a scratch worktree: compiles, suite passes, demo fails with / passes without)\n")
print("| Seed | Property | Change (summary) | Needs to manifest | Result of the owning check (quick tier) |")
print("|---|---|---|---|---|")
for d in sorted(glob.glob(os.path.join(root, "seeded", "*"))):
    name = os.path.basename(d)
    try:
        m = json.load(open(os.path.join(d, "meta.json")))
    except Exception:
        continue
    res = ""
    p = os.path.join(d, "check_result.txt")
    if os.path.exists(p):
        res = open(p).read().strip().split("::", 1)[-1].strip()
    def clip(s, n):
        s = (s or "").replace("|", "\\|").replace("\n", " ")
        return s if len(s) <= n else s[:n] + "…"
    first = re.search(r"exit=(\d)", res)
    if first and first.group(1) == "1":
        caught = "**caught**"
    elif "exit=1" in res:
        caught = "not by the owning check, **caught by others**"
    elif first:
        caught = "not caught (see note)"
    else:
        caught = "?"
    print("| %s | %s | %s | %s | %s: `%s` |" % (name, m.get("breaks_property"), clip(m.get("summary"), 260), clip(m.get("needs_to_manifest"), 200), caught, clip(res, 230)))
print("\n#### Hand-written mutations from the 'Sensitivity' lists of §5 (not required to pass the suite)\n")
print("| Mutation | Result of the owning check (quick tier) |")
print("|---|---|")
p = os.path.join(root, "sensitivity", "own", "RESULTS.txt")
if os.path.exists(p):
    for line in open(p):
        if "::" not in line:
            continue
        name, res = line.strip().split("::", 1)
        res = res.strip()
        caught = "**caught**" if "exit=1" in res else ("not caught" if "exit=0" in res else "?")
        print("| %s | %s: `%s` |" % (name.strip(), caught, res.replace("|", "\\|")[:200]))
