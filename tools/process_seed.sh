#!/bin/sh
# tools/process_seed.sh <prop> <A|B> — confirm a delivered seeded change, keep it
# under seeded/<prop>-<A|B>/ and run the owning check against it.
P="$1"; W="$2"
cd /verif || exit 2
DEL="${MUTROOT:-/tmp/mut}/$P/deliver"
OUT="seeded/$P-${SEED_ROUND}$W"
mkdir -p "$OUT"
if ! tools/confirm_seed.sh "$DEL" "$W" "$OUT" > "$OUT/confirm.stdout" 2>&1; then
  echo "$P-${SEED_ROUND}$W NOT CONFIRMED: $(tail -1 $OUT/confirm.txt)"
  exit 1
fi
cp "$DEL/$W.patch.diff" "$OUT/patch.diff"
[ -s "$OUT/patch.rebased.diff" ] && cp "$OUT/patch.rebased.diff" "$OUT/patch.diff" && cp "$DEL/$W.patch.diff" "$OUT/patch.original.diff"
cp "$DEL/${W}_demo_test.go" "$OUT/demo_test.go"
python3 - "$DEL/meta.json" "$W" "$P" "$OUT" <<'PY'
import json,sys
m=json.load(open(sys.argv[1])); w=sys.argv[2]
e=m.get(w, {})
out={"breaks_property": sys.argv[3], "summary": e.get("summary"), "files": e.get("files"), "needs_to_manifest": e.get("needs_to_manifest"),
     "why_tests_pass": e.get("why_tests_pass"), "demo_cmd": e.get("demo_cmd"),
     "confirmed_by": "tools/confirm_seed.sh in a scratch worktree of /repo HEAD: demo passes on unmodified code, patch applies and compiles, demo fails with the change, root-module test suite passes with the change (see confirm.txt)"}
json.dump(out, open(sys.argv[4]+"/meta.json","w"), indent=1)
PY
res=$(MUTDIR=/tmp/mutrun.$P${SEED_ROUND}$W tools/mutcheck.sh "$OUT/patch.diff" "$P" 2>&1 | head -2 | tr '\n' ' ')
echo "$P-${SEED_ROUND}$W CONFIRMED :: $res" | tee "$OUT/check_result.txt"
