#!/bin/sh
# tools/confirm_seed.sh <deliver dir> <A|B> <out dir>
# Independently confirms a seeded change produced by a sub-agent, in a scratch
# worktree of /repo's HEAD: (1) the demonstration passes on the unmodified code,
# (2) the patch applies and the code compiles, (3) the demonstration fails with
# the change, (4) the existing test suite of the root module still passes with
# the change (demo excluded). Writes <out dir>/confirm.txt and exits 0 iff all four hold.
DEL="$1"; WHICH="$2"; OUT="$3"
export GOFLAGS=-mod=mod GOPROXY=off GOSUMDB=off GOTOOLCHAIN=local CGO_ENABLED=1
D="/tmp/confirm.$$"
mkdir -p "$OUT"
cleanup() { git -C /repo worktree remove --force "$D" >/dev/null 2>&1; rm -rf "$D"; }
trap cleanup EXIT INT TERM
git -C /repo worktree add -q --detach "$D" HEAD || exit 2
(cd "$D/cmd/legacydump" && go build -o legacydump main.go) || exit 2
PKGDIR="$D"
grep -q '^package iavl' "$DEL/${WHICH}_demo_test.go" || true
# v2 demos live in the v2 module
if grep -q 'v2' "$DEL/meta.json" 2>/dev/null && grep -q "$WHICH.*v2/" "$DEL/meta.json" 2>/dev/null; then :; fi
if [ -n "$SEED_PKGDIR" ]; then PKGDIR="$D/$SEED_PKGDIR"; fi
cp "$DEL/${WHICH}_demo_test.go" "$PKGDIR/zz_seed_${WHICH}_demo_test.go"
R="$OUT/confirm.txt"; : > "$R"
DEMO_RUN="${SEED_RUN:-Mut}"
echo "== demo on unmodified code" >> "$R"
(cd "$PKGDIR" && go test $SEED_TESTFLAGS -vet=off -count=1 -run "$DEMO_RUN" . ) >> "$R" 2>&1; rc_clean=$?
echo "rc=$rc_clean" >> "$R"
echo "== apply + build" >> "$R"
git -C "$D" apply "$DEL/${WHICH}.patch.diff" >> "$R" 2>&1; rc_apply=$?
if [ $rc_apply -ne 0 ]; then
  # /repo has moved on since the change was written (repairs): merge it
  echo "-- plain apply failed, trying a 3-way merge onto the current HEAD" >> "$R"
  git -C "$D" apply --3way "$DEL/${WHICH}.patch.diff" >> "$R" 2>&1; rc_apply=$?
  if [ $rc_apply -eq 0 ]; then git -C "$D" reset -q; git -C "$D" diff > "$OUT/patch.rebased.diff"; fi
fi
(cd "$PKGDIR" && go build ./... ) >> "$R" 2>&1; rc_build=$?
echo "rc_apply=$rc_apply rc_build=$rc_build" >> "$R"
echo "== demo with the change" >> "$R"
(cd "$PKGDIR" && go test $SEED_TESTFLAGS -vet=off -count=1 -run "$DEMO_RUN" . ) > "$OUT/demo_with_change.log" 2>&1; rc_mut=$?
tail -15 "$OUT/demo_with_change.log" >> "$R"
echo "rc=$rc_mut" >> "$R"
echo "== existing suite with the change (demo excluded)" >> "$R"
rm -f "$PKGDIR/zz_seed_${WHICH}_demo_test.go"
(cd "$PKGDIR" && go test -vet=off -count=1 -timeout ${SEED_SUITE_TIMEOUT:-25m} . ) > "$OUT/suite_with_change.log" 2>&1; rc_suite=$?
tail -5 "$OUT/suite_with_change.log" >> "$R"
echo "rc=$rc_suite" >> "$R"
ok=1
[ $rc_clean -eq 0 ] || ok=0
[ $rc_apply -eq 0 ] && [ $rc_build -eq 0 ] || ok=0
[ $rc_mut -ne 0 ] || ok=0
[ $rc_suite -eq 0 ] || ok=0
echo "CONFIRMED=$ok (demo_clean=$rc_clean apply=$rc_apply build=$rc_build demo_mut=$rc_mut suite=$rc_suite)" | tee -a "$R"
[ $ok -eq 1 ]
