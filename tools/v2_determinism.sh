#!/bin/bash
# usage: VERIF_ROOT=<harness root> tools/v2_determinism.sh PROP N
# gen -> exec three times (GOMAXPROCS=1, 16, default) and compare the complete JSON outcome (incl. Trace)
ROOT=${VERIF_ROOT:-/tmp/agentB}; export VERIF_ROOT=$ROOT
prop=$1; n=$2; bad=0; crashed=0
d=$(mktemp -d)
for r in $(seq 0 $((n-1))); do
  $ROOT/.build/verif gen $prop quick $r > $d/p.json
  GOMAXPROCS=1 $ROOT/.build/verif exec $d/p.json > $d/a.json 2>/dev/null; ea=$?
  GOMAXPROCS=16 $ROOT/.build/verif exec $d/p.json > $d/b.json 2>/dev/null; eb=$?
  $ROOT/.build/verif exec $d/p.json > $d/c.json 2>/dev/null; ec=$?
  if [ $ea -ne 0 ] || [ $eb -ne 0 ] || [ $ec -ne 0 ]; then crashed=$((crashed+1)); echo "run $r: exit codes $ea $eb $ec"; [ "$ea$eb$ec" = "$ea$ea$ea" ] || bad=$((bad+1)); continue; fi
  if ! cmp -s $d/a.json $d/b.json || ! cmp -s $d/a.json $d/c.json; then bad=$((bad+1)); echo "run $r DIFFERS"; cp $d/p.json $ROOT/.build/nondet-$prop-$r.json; fi
done
echo "$prop: $n runs x 3 executions (GOMAXPROCS=1,16,default): nondeterministic=$bad crashed=$crashed"
rm -rf $d
