//go:build !race

package sim

// RaceBuild tells whether the binary was built with the race detector.
const RaceBuild = false

func raceDisable() {}
func raceEnable()  {}

// RaceDisable / RaceEnable hide the synchronisation events between them from
// the race detector (no-ops without the race build).
func RaceDisable() {}
func RaceEnable()  {}
