//go:build race

package sim

import "runtime"

// RaceBuild tells whether the binary was built with the race detector.
const RaceBuild = true

func raceDisable() { runtime.RaceDisable() }
func raceEnable()  { runtime.RaceEnable() }

// RaceDisable / RaceEnable hide the synchronisation events between them from
// the race detector (no-ops without the race build).
func RaceDisable() { runtime.RaceDisable() }
func RaceEnable()  { runtime.RaceEnable() }
