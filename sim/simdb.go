package sim

import (
	"bytes"
	"errors"
	"fmt"
	"runtime"
	"strings"
	"sync"

	corestore "cosmossdk.io/core/store"
	"github.com/google/btree"
)

// ErrInjected is returned by every storage call the simulator fails on purpose.
var ErrInjected = errors.New("simdb: injected storage failure")

var (
	errKeyEmpty    = errors.New("simdb: key cannot be empty")
	errValueNil    = errors.New("simdb: value cannot be nil")
	errBatchClosed = errors.New("simdb: batch has been written or closed")
)

// Call kinds, used for fault addressing and accounting.
const (
	KGet    = "Get"
	KHas    = "Has"
	KIter   = "Iterator"
	KRIter  = "ReverseIterator"
	KNext   = "iter.Next"
	KBSet   = "batch.Set"
	KBDel   = "batch.Delete"
	KBWrite = "batch.Write"
	KBSize  = "batch.GetByteSize"
	KSet    = "Set"
	KDel    = "Delete"
)

// AllKinds lists every call kind in a fixed order.
var AllKinds = []string{KGet, KHas, KIter, KRIter, KNext, KBSet, KBDel, KBWrite, KBSize, KSet, KDel}

// ReadKinds are the kinds that only read.
var ReadKinds = map[string]bool{KGet: true, KHas: true, KIter: true, KRIter: true, KNext: true}

type entry struct {
	k string
	v []byte
}

func entryLess(a, b entry) bool { return a.k < b.k }

// Op is one mutation inside a physical write.
type Op struct {
	Del bool
	K   []byte
	V   []byte
}

// WriteRec is one physical write: atomic and totally ordered.
type WriteRec struct {
	Step   int
	Seq    int
	Ops    []Op
	Sync   bool
	Direct bool
	// Task and Site are filled in when SimDB.Who is set (concurrent runs): the
	// scheduler task that issued the write and the innermost iavl frames of the call.
	Task string
	Site string
}

// Fault makes the N-th call (1-based) of Kind in step Step fail.
type Fault struct {
	Step int    `json:"step"`
	Kind string `json:"kind"`
	N    int    `json:"n"`
}

// Fired describes an injected fault that actually happened.
type Fired struct {
	Fault Fault
	Site  string
}

// SimDB is the simulated disk: a sorted map plus a log of physical writes.
type SimDB struct {
	mu    sync.Mutex
	tree  *btree.BTreeG[entry]
	log   []WriteRec
	snaps []*btree.BTreeG[entry] // snaps[i] = contents before log[i] (only when KeepSnaps)
	base  *btree.BTreeG[entry]

	KeepSnaps bool
	// AcctLevelDB selects LevelDB-like batch size accounting instead of MemDB-like.
	AcctLevelDB bool

	step     int
	counts   map[string]int // per-step, by kind
	total    map[string]int // whole life, by kind
	spaceGet map[byte]int   // per-step Get/Has count by key space (first key byte)
	faults   []Fault
	fired    []Fired
	disarmed bool
	paused   bool // calls are neither counted nor failed (see Quiet)

	openIters     int
	writeUnderItr int

	// Hook, when set, is called before every storage call is served (no SimDB
	// lock held). The scheduler uses it as a yield point.
	Hook func(kind string)
	// Who, when set, names the task that issues a physical write (see WriteRec).
	Who func() string
}

var _ corestore.KVStoreWithBatch = (*SimDB)(nil)

// NewSimDB returns an empty simulated disk.
func NewSimDB() *SimDB {
	t := btree.NewG[entry](16, entryLess)
	return &SimDB{
		tree:     t,
		base:     t.Clone(),
		counts:   map[string]int{},
		total:    map[string]int{},
		spaceGet: map[byte]int{},
	}
}

// BeginStep resets the per-step counters and tags subsequent writes.
func (d *SimDB) BeginStep(step int) {
	d.mu.Lock()
	defer d.mu.Unlock()
	d.step = step
	d.counts = map[string]int{}
	d.spaceGet = map[byte]int{}
	d.disarmed = false
}

// Arm installs the fault list (replacing any previous one).
func (d *SimDB) Arm(f []Fault) {
	d.mu.Lock()
	defer d.mu.Unlock()
	d.faults = append([]Fault(nil), f...)
	d.disarmed = false
}

// Quiet runs f with the storage calls it makes neither counted nor failed:
// for calls of the harness itself (and of API functions without an error
// result) in the middle of a probe that is under fault injection.
func (d *SimDB) Quiet(f func()) {
	d.mu.Lock()
	was := d.paused
	d.paused = true
	d.mu.Unlock()
	defer func() {
		d.mu.Lock()
		d.paused = was
		d.mu.Unlock()
	}()
	f()
}

// Disarm stops fault injection ("faults stop").
func (d *SimDB) Disarm() {
	d.mu.Lock()
	defer d.mu.Unlock()
	d.faults = nil
}

// Fired returns the faults that actually fired so far.
func (d *SimDB) Fired() []Fired {
	d.mu.Lock()
	defer d.mu.Unlock()
	return append([]Fired(nil), d.fired...)
}

// ClearFired forgets fired faults.
func (d *SimDB) ClearFired() {
	d.mu.Lock()
	defer d.mu.Unlock()
	d.fired = nil
}

// Counts returns a copy of the per-step counters by kind.
func (d *SimDB) Counts() map[string]int {
	d.mu.Lock()
	defer d.mu.Unlock()
	m := make(map[string]int, len(d.counts))
	for k, v := range d.counts {
		m[k] = v
	}
	return m
}

// Totals returns a copy of the life-time counters by kind.
func (d *SimDB) Totals() map[string]int {
	d.mu.Lock()
	defer d.mu.Unlock()
	m := make(map[string]int, len(d.total))
	for k, v := range d.total {
		m[k] = v
	}
	return m
}

// SpaceReads returns how many Get/Has calls of the current step addressed the
// key space starting with byte b.
func (d *SimDB) SpaceReads(b byte) int {
	d.mu.Lock()
	defer d.mu.Unlock()
	return d.spaceGet[b]
}

// WriteUnderIterator reports how often a write hit the store while one of its
// iterators was open (contract probe, evidence only).
func (d *SimDB) WriteUnderIterator() int {
	d.mu.Lock()
	defer d.mu.Unlock()
	return d.writeUnderItr
}

// callSite returns the innermost frames inside github.com/cosmos/iavl.
func callSite() string {
	pcs := make([]uintptr, 32)
	n := runtime.Callers(3, pcs)
	frames := runtime.CallersFrames(pcs[:n])
	var out []string
	for {
		f, more := frames.Next()
		if strings.Contains(f.Function, "github.com/cosmos/iavl") {
			name := f.Function[strings.LastIndex(f.Function, "/")+1:]
			name = strings.TrimPrefix(name, "iavl.")
			name = strings.ReplaceAll(name, "(*", "")
			name = strings.ReplaceAll(name, ")", "")
			if len(out) == 0 || out[len(out)-1] != name {
				out = append(out, name)
			}
			if len(out) == 3 {
				break
			}
		}
		if !more {
			break
		}
	}
	return strings.Join(out, "<")
}

// enter accounts for a call and decides whether it must fail.
func (d *SimDB) enter(kind string, key []byte) error {
	if h := d.Hook; h != nil {
		h(kind)
	}
	d.mu.Lock()
	if d.paused {
		d.mu.Unlock()
		return nil
	}
	d.counts[kind]++
	d.total[kind]++
	if (kind == KGet || kind == KHas) && len(key) > 0 {
		d.spaceGet[key[0]]++
	}
	n := d.counts[kind]
	var hit *Fault
	for i := range d.faults {
		f := &d.faults[i]
		if f.Step == d.step && f.Kind == kind && f.N == n {
			hit = f
			break
		}
	}
	d.mu.Unlock()
	if hit != nil {
		site := callSite()
		d.mu.Lock()
		d.fired = append(d.fired, Fired{Fault: *hit, Site: site})
		d.mu.Unlock()
		return ErrInjected
	}
	return nil
}

func cp(b []byte) []byte {
	if b == nil {
		return nil
	}
	c := make([]byte, len(b))
	copy(c, b)
	return c
}

// Get implements KVStore.
func (d *SimDB) Get(key []byte) ([]byte, error) {
	if len(key) == 0 {
		return nil, errKeyEmpty
	}
	if err := d.enter(KGet, key); err != nil {
		return nil, err
	}
	d.mu.Lock()
	defer d.mu.Unlock()
	e, ok := d.tree.Get(entry{k: string(key)})
	if !ok {
		return nil, nil
	}
	return cp(e.v), nil
}

// Has implements KVStore.
func (d *SimDB) Has(key []byte) (bool, error) {
	if len(key) == 0 {
		return false, errKeyEmpty
	}
	if err := d.enter(KHas, key); err != nil {
		return false, err
	}
	d.mu.Lock()
	defer d.mu.Unlock()
	return d.tree.Has(entry{k: string(key)}), nil
}

// Set implements KVStore (a direct, single-op physical write).
func (d *SimDB) Set(key, value []byte) error {
	if len(key) == 0 {
		return errKeyEmpty
	}
	if value == nil {
		return errValueNil
	}
	if err := d.enter(KSet, key); err != nil {
		return err
	}
	d.apply([]Op{{K: cp(key), V: cp(value)}}, false, true)
	return nil
}

// Delete implements KVStore.
func (d *SimDB) Delete(key []byte) error {
	if len(key) == 0 {
		return errKeyEmpty
	}
	if err := d.enter(KDel, key); err != nil {
		return err
	}
	d.apply([]Op{{Del: true, K: cp(key)}}, false, true)
	return nil
}

func (d *SimDB) apply(ops []Op, sync, direct bool) {
	task, site := "", ""
	if w := d.Who; w != nil {
		task, site = w(), callSite()
	}
	d.mu.Lock()
	defer d.mu.Unlock()
	if d.openIters > 0 {
		d.writeUnderItr++
	}
	if d.KeepSnaps {
		d.snaps = append(d.snaps, d.tree.Clone())
	}
	d.log = append(d.log, WriteRec{Step: d.step, Seq: len(d.log), Ops: ops, Sync: sync, Direct: direct, Task: task, Site: site})
	for _, op := range ops {
		if op.Del {
			d.tree.Delete(entry{k: string(op.K)})
		} else {
			d.tree.ReplaceOrInsert(entry{k: string(op.K), v: op.V})
		}
	}
}

// Close implements KVStoreWithBatch; the simulated disk survives it.
func (d *SimDB) Close() error { return nil }

// LogLen returns the number of physical writes so far.
func (d *SimDB) LogLen() int {
	d.mu.Lock()
	defer d.mu.Unlock()
	return len(d.log)
}

// Log returns the write records [from,to).
func (d *SimDB) Log(from, to int) []WriteRec {
	d.mu.Lock()
	defer d.mu.Unlock()
	return append([]WriteRec(nil), d.log[from:to]...)
}

// ImageAt returns a fresh SimDB whose contents are the initial image plus the
// first w physical writes: exactly what survives a stop after write w.
func (d *SimDB) ImageAt(w int) *SimDB {
	d.mu.Lock()
	defer d.mu.Unlock()
	n := NewSimDB()
	n.AcctLevelDB = d.AcctLevelDB
	switch {
	case w >= len(d.log):
		n.tree = d.tree.Clone()
	case d.KeepSnaps && w < len(d.snaps):
		n.tree = d.snaps[w].Clone()
	default:
		t := d.base.Clone()
		for _, rec := range d.log[:w] {
			for _, op := range rec.Ops {
				if op.Del {
					t.Delete(entry{k: string(op.K)})
				} else {
					t.ReplaceOrInsert(entry{k: string(op.K), v: op.V})
				}
			}
		}
		n.tree = t
	}
	n.base = n.tree.Clone()
	return n
}

// Fork returns an independent copy of the current durable contents.
func (d *SimDB) Fork() *SimDB { return d.ImageAt(1 << 60) }

// Dump returns the durable contents in key order.
func (d *SimDB) Dump() []Op {
	d.mu.Lock()
	t := d.tree.Clone()
	d.mu.Unlock()
	var out []Op
	t.Ascend(func(e entry) bool {
		out = append(out, Op{K: []byte(e.k), V: e.v})
		return true
	})
	return out
}

// Len returns the number of stored keys.
func (d *SimDB) Len() int {
	d.mu.Lock()
	defer d.mu.Unlock()
	return d.tree.Len()
}

// RawGet reads without accounting or faults (oracle use only).
func (d *SimDB) RawGet(key []byte) ([]byte, bool) {
	d.mu.Lock()
	defer d.mu.Unlock()
	e, ok := d.tree.Get(entry{k: string(key)})
	return e.v, ok
}

// RawSet writes without logging (used to build externally encoded images and
// to inject corruption faults).
func (d *SimDB) RawSet(key, value []byte) {
	d.mu.Lock()
	defer d.mu.Unlock()
	d.tree.ReplaceOrInsert(entry{k: string(key), v: cp(value)})
}

// RawDelete deletes without logging.
func (d *SimDB) RawDelete(key []byte) {
	d.mu.Lock()
	defer d.mu.Unlock()
	d.tree.Delete(entry{k: string(key)})
}

// Digest returns a short digest of the durable contents.
func (d *SimDB) Digest() uint64 {
	h := uint64(1469598103934665603)
	mixb := func(b []byte) {
		for _, c := range b {
			h ^= uint64(c)
			h *= 1099511628211
		}
		h ^= 0xff
		h *= 1099511628211
	}
	for _, op := range d.Dump() {
		mixb(op.K)
		mixb(op.V)
	}
	return h
}

// Equal reports whether two disks hold the same contents.
func (d *SimDB) Equal(o *SimDB) bool {
	a, b := d.Dump(), o.Dump()
	if len(a) != len(b) {
		return false
	}
	for i := range a {
		if !bytes.Equal(a[i].K, b[i].K) || !bytes.Equal(a[i].V, b[i].V) {
			return false
		}
	}
	return true
}

// ---------------------------------------------------------------- iterators

type simIter struct {
	d          *SimDB
	snap       *btree.BTreeG[entry]
	start, end []byte
	reverse    bool
	buf        []entry
	lastKey    string
	pos        int
	done       bool // no more chunks
	err        error
	closed     bool
}

const iterChunk = 24

func (d *SimDB) newIter(start, end []byte, reverse bool) (corestore.Iterator, error) {
	if (start != nil && len(start) == 0) || (end != nil && len(end) == 0) {
		return nil, errKeyEmpty
	}
	kind := KIter
	if reverse {
		kind = KRIter
	}
	if err := d.enter(kind, nil); err != nil {
		return nil, err
	}
	d.mu.Lock()
	snap := d.tree.Clone()
	d.openIters++
	d.mu.Unlock()
	it := &simIter{d: d, snap: snap, start: cp(start), end: cp(end), reverse: reverse}
	it.fill(true)
	return it, nil
}

// Iterator implements KVStore.
func (d *SimDB) Iterator(start, end []byte) (corestore.Iterator, error) {
	return d.newIter(start, end, false)
}

// ReverseIterator implements KVStore.
func (d *SimDB) ReverseIterator(start, end []byte) (corestore.Iterator, error) {
	return d.newIter(start, end, true)
}

// fill loads the next chunk from the snapshot.
func (it *simIter) fill(first bool) {
	it.buf = it.buf[:0]
	it.pos = 0
	if it.done {
		return
	}
	var last string
	if !first {
		last = it.lastKey
	}
	collect := func(e entry) bool {
		if !first && e.k == last {
			return true
		}
		if !it.reverse {
			if it.end != nil && e.k >= string(it.end) {
				it.done = true
				return false
			}
		} else {
			if it.end != nil && e.k >= string(it.end) {
				return true // skip keys at/after the exclusive end
			}
			if it.start != nil && e.k < string(it.start) {
				it.done = true
				return false
			}
		}
		it.buf = append(it.buf, e)
		return len(it.buf) < iterChunk
	}
	if !it.reverse {
		switch {
		case !first:
			it.snap.AscendGreaterOrEqual(entry{k: last}, collect)
		case it.start != nil:
			it.snap.AscendGreaterOrEqual(entry{k: string(it.start)}, collect)
		default:
			it.snap.Ascend(collect)
		}
	} else {
		switch {
		case !first:
			it.snap.DescendLessOrEqual(entry{k: last}, collect)
		case it.end != nil:
			it.snap.DescendLessOrEqual(entry{k: string(it.end)}, collect)
		default:
			it.snap.Descend(collect)
		}
	}
	if len(it.buf) < iterChunk {
		it.done = true
	}
	if len(it.buf) > 0 {
		it.lastKey = it.buf[len(it.buf)-1].k
	}
}

func (it *simIter) Domain() ([]byte, []byte) { return it.start, it.end }

func (it *simIter) Valid() bool {
	return !it.closed && it.err == nil && it.pos < len(it.buf)
}

func (it *simIter) Next() {
	if !it.Valid() {
		panic("simdb: iterator is invalid")
	}
	if err := it.d.enter(KNext, nil); err != nil {
		it.err = err
		return
	}
	it.pos++
	if it.pos >= len(it.buf) && !it.done {
		it.fill(false)
	}
}

func (it *simIter) Key() []byte {
	if !it.Valid() {
		panic("simdb: iterator is invalid")
	}
	return []byte(it.buf[it.pos].k)
}

func (it *simIter) Value() []byte {
	if !it.Valid() {
		panic("simdb: iterator is invalid")
	}
	return cp(it.buf[it.pos].v)
}

func (it *simIter) Error() error { return it.err }

func (it *simIter) Close() error {
	if !it.closed {
		it.closed = true
		it.d.mu.Lock()
		it.d.openIters--
		it.d.mu.Unlock()
	}
	return nil
}

// ---------------------------------------------------------------- batches

type simBatch struct {
	d      *SimDB
	ops    []Op
	size   int
	closed bool
}

// NewBatch implements BatchCreator.
func (d *SimDB) NewBatch() corestore.Batch {
	b := &simBatch{d: d}
	if d.AcctLevelDB {
		b.size = 12
	}
	return b
}

// NewBatchWithSize implements BatchCreator.
func (d *SimDB) NewBatchWithSize(int) corestore.Batch { return d.NewBatch() }

func uvarintLen(x int) int {
	n := 1
	for x >= 0x80 {
		x >>= 7
		n++
	}
	return n
}

func (b *simBatch) Set(key, value []byte) error {
	if len(key) == 0 {
		return errKeyEmpty
	}
	if value == nil {
		return errValueNil
	}
	if b.closed {
		return errBatchClosed
	}
	if err := b.d.enter(KBSet, key); err != nil {
		return err
	}
	if b.d.AcctLevelDB {
		b.size += 1 + uvarintLen(len(key)) + len(key) + uvarintLen(len(value)) + len(value)
	} else {
		b.size += len(key) + len(value)
	}
	b.ops = append(b.ops, Op{K: cp(key), V: cp(value)})
	return nil
}

func (b *simBatch) Delete(key []byte) error {
	if len(key) == 0 {
		return errKeyEmpty
	}
	if b.closed {
		return errBatchClosed
	}
	if err := b.d.enter(KBDel, key); err != nil {
		return err
	}
	if b.d.AcctLevelDB {
		b.size += 1 + uvarintLen(len(key)) + len(key)
	} else {
		b.size += len(key)
	}
	b.ops = append(b.ops, Op{Del: true, K: cp(key)})
	return nil
}

func (b *simBatch) write(sync bool) error {
	if b.closed {
		return errBatchClosed
	}
	if err := b.d.enter(KBWrite, nil); err != nil {
		return err
	}
	b.d.apply(b.ops, sync, false)
	b.closed = true
	b.ops = nil
	// the write is visible from here on: one more preemption point, so that a
	// schedule can place another task between a physical write and whatever
	// its issuer does next (e.g. the update of an in-memory cache)
	if h := b.d.Hook; h != nil {
		h(KBWrite + ".done")
	}
	return nil
}

func (b *simBatch) Write() error     { return b.write(false) }
func (b *simBatch) WriteSync() error { return b.write(true) }

func (b *simBatch) Close() error {
	b.closed = true
	b.ops = nil
	return nil
}

func (b *simBatch) GetByteSize() (int, error) {
	if b.closed {
		return 0, errBatchClosed
	}
	if err := b.d.enter(KBSize, nil); err != nil {
		return 0, err
	}
	return b.size, nil
}

// String is a debugging aid.
func (d *SimDB) String() string {
	var sb strings.Builder
	for _, op := range d.Dump() {
		fmt.Fprintf(&sb, "%x = %x\n", op.K, op.V)
	}
	return sb.String()
}
