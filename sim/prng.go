// Package sim holds the simulator core: the PRNG every choice is derived from,
// the simulated disk (SimDB), the cooperative scheduler, the delta-debugging
// shrinker and the plumbing shared by all checks.
package sim

import (
	"hash/fnv"
)

// Rand is xoshiro256** seeded through splitmix64. It is the only source of
// randomness in the whole machinery: one integer decides everything.
type Rand struct{ s [4]uint64 }

func splitmix(x *uint64) uint64 {
	*x += 0x9e3779b97f4a7c15
	z := *x
	z = (z ^ (z >> 30)) * 0xbf58476d1ce4e5b9
	z = (z ^ (z >> 27)) * 0x94d049bb133111eb
	return z ^ (z >> 31)
}

// NewRand returns a generator for the given seed.
func NewRand(seed uint64) *Rand {
	r := &Rand{}
	x := seed
	for i := range r.s {
		r.s[i] = splitmix(&x)
	}
	return r
}

//go:norace
func rotl(x uint64, k uint) uint64 { return (x << k) | (x >> (64 - k)) }

// Uint64 returns the next 64 random bits.
//
//go:norace
func (r *Rand) Uint64() uint64 {
	res := rotl(r.s[1]*5, 7) * 9
	t := r.s[1] << 17
	r.s[2] ^= r.s[0]
	r.s[3] ^= r.s[1]
	r.s[1] ^= r.s[2]
	r.s[0] ^= r.s[3]
	r.s[2] ^= t
	r.s[3] = rotl(r.s[3], 45)
	return res
}

// Intn returns a value in [0,n). n<=0 returns 0.
//
//go:norace
func (r *Rand) Intn(n int) int {
	if n <= 1 {
		return 0
	}
	return int(r.Uint64() % uint64(n))
}

// Range returns a value in [lo,hi] inclusive.
//
//go:norace
func (r *Rand) Range(lo, hi int) int {
	if hi <= lo {
		return lo
	}
	return lo + r.Intn(hi-lo+1)
}

// Chance returns true with probability num/den.
//
//go:norace
func (r *Rand) Chance(num, den int) bool { return r.Intn(den) < num }

// Pick returns one of the given ints.
//
//go:norace
func (r *Rand) Pick(xs ...int) int { return xs[r.Intn(len(xs))] }

// Mix derives an independent seed from a seed and labels; used for sub-streams
// so that deleting a step while shrinking does not shift the others.
func Mix(seed uint64, labels ...interface{}) uint64 {
	h := fnv.New64a()
	var b [8]byte
	put := func(v uint64) {
		for i := 0; i < 8; i++ {
			b[i] = byte(v >> (8 * i))
		}
		h.Write(b[:])
	}
	put(seed)
	for _, l := range labels {
		switch v := l.(type) {
		case string:
			h.Write([]byte(v))
			h.Write([]byte{0})
		case int:
			put(uint64(v))
		case int64:
			put(uint64(v))
		case uint64:
			put(v)
		default:
			panic("sim.Mix: unsupported label type")
		}
	}
	x := h.Sum64()
	return splitmix(&x)
}

// Sub returns a generator for a labelled sub-stream of seed.
func Sub(seed uint64, labels ...interface{}) *Rand { return NewRand(Mix(seed, labels...)) }
