package sim

import (
	"fmt"
	"os"
	"runtime"
	"sort"
	"strings"
	"sync"
	"time"
)

// Sched is the cooperative scheduler of concurrent simulated runs. Tasks are
// real goroutines (harness tasks and the goroutines the system under test
// starts itself); exactly one runs at a time, all others are parked inside a
// hook. At every yield point the next task is chosen from an explicit schedule
// (replay) or from the run's PRNG (and recorded), so one seed is one
// execution. The hand-off between tasks is hidden from the race detector (see
// race_on.go), so the detector reports exactly the accesses the system's own
// synchronisation fails to order.
type Sched struct {
	mu     sync.Mutex
	tasks  []*task
	cur    *task
	now    time.Duration
	rng    *Rand
	swNum  int // switch probability numerator / denominator
	swDen  int
	replay []int
	pos    int
	useRep bool

	// Rec is the recorded list of choices (one per choice point with more than one candidate).
	Rec []int
	// Probe reports whether the current task may be parked here (no lock of the
	// system under test is held).
	Probe func() bool

	yields    int
	maxYields int
	noYield   int // >0 while the running task executes an Atomic section
	pollFails int // consecutive polls of blocked tasks that found their condition false
	aborted   bool
	problem   string
	wg        sync.WaitGroup
	finished  chan struct{}
	finOnce   sync.Once

	// evidence
	Switches  int
	adj       []string // (task:point>next) of every switch; a slice, because map operations are always race-instrumented
	lastPoint string
	SimTime   time.Duration
	// Quantum is the simulated time every scheduling decision takes: with a
	// non-zero quantum the clock also advances while tasks are busy, so that a
	// sleeping task (the background pruner's poll) wakes up in the middle of the
	// others' work and not only when everybody else is idle.
	Quantum time.Duration
}

type taskState int

const (
	tRunnable taskState = iota
	tBlocked
	tSleeping
	tDone
)

type task struct {
	id      int
	name    string
	owner   interface{}
	wake    chan struct{}
	state   taskState
	cond    func() bool
	wakeAt  time.Duration
	harness bool
	point   string
}

// NewSched creates a scheduler. schedule != nil replays explicit choices;
// otherwise choices are drawn from r with switch probability num/den.
func NewSched(r *Rand, num, den int, schedule []int, useSchedule bool) *Sched {
	return &Sched{rng: r, swNum: num, swDen: den, replay: schedule, useRep: useSchedule, maxYields: 30000, finished: make(chan struct{})}
}

//go:norace
func (s *Sched) lock() {
	raceDisable()
	s.mu.Lock()
	raceEnable()
}

//go:norace
func (s *Sched) unlock() {
	raceDisable()
	s.mu.Unlock()
	raceEnable()
}

// park blocks the calling goroutine until its task is woken; a woken task of
// an aborted run exits its goroutine.
//
//go:norace
func (s *Sched) park(t *task) {
	raceDisable()
	<-t.wake
	raceEnable()
	if s.aborted {
		s.exitTask(t)
		runtime.Goexit()
	}
}

//go:norace
func (s *Sched) wakeTask(t *task) {
	raceDisable()
	t.wake <- struct{}{}
	raceEnable()
}

//go:norace
func (s *Sched) exitTask(t *task) {
	s.lock()
	if t.state != tDone {
		t.state = tDone
		s.wg.Done()
	}
	s.unlock()
}

//go:norace
func (s *Sched) newTask(name string, owner interface{}, harness bool) *task {
	t := &task{id: len(s.tasks), name: name, owner: owner, wake: make(chan struct{}, 1), harness: harness}
	s.tasks = append(s.tasks, t)
	s.wg.Add(1)
	return t
}

// Go registers a harness task. Must be called before Run or from a running task.
//
//go:norace
func (s *Sched) Go(name string, f func()) {
	s.lock()
	t := s.newTask(name, nil, true)
	s.unlock()
	go func() {
		s.park(t)
		defer func() {
			// a task that ends (normally or through Goexit) hands the processor on
			s.finishCurrent(t)
		}()
		f()
	}()
}

// finishCurrent marks t done and schedules the next task.
//
//go:norace
func (s *Sched) finishCurrent(t *task) {
	s.lock()
	already := t.state == tDone
	if !already {
		t.state = tDone
		s.wg.Done()
	}
	aborted := s.aborted
	s.unlock()
	if already || aborted {
		return
	}
	s.dispatch(nil, "exit:"+t.name)
}

// Spawn is the hook called by the running task right before the system under
// test starts a goroutine owned by owner.
//
//go:norace
func (s *Sched) Spawn(owner interface{}) {
	s.lock()
	s.newTask(fmt.Sprintf("sut-%T", owner), owner, false)
	s.unlock()
}

//go:norace
func (s *Sched) byOwner(owner interface{}) *task {
	for i := len(s.tasks) - 1; i >= 0; i-- {
		if s.tasks[i].owner == owner {
			return s.tasks[i]
		}
	}
	return nil
}

// Enter is the first statement of a spawned goroutine: it parks until scheduled.
//
//go:norace
func (s *Sched) Enter(owner interface{}) {
	s.lock()
	t := s.byOwner(owner)
	s.unlock()
	if t == nil {
		return // started outside a simulated run
	}
	s.park(t)
}

// Exit is the deferred last statement of a spawned goroutine.
//
//go:norace
func (s *Sched) Exit(owner interface{}) {
	s.lock()
	t := s.byOwner(owner)
	s.unlock()
	if t == nil {
		return
	}
	s.finishCurrent(t)
}

// Done reports whether the goroutine owned by owner has exited.
//
//go:norace
func (s *Sched) Done(owner interface{}) bool {
	s.lock()
	defer s.unlock()
	t := s.byOwner(owner)
	return t == nil || t.state == tDone
}

// Atomic runs f without letting the calling task be preempted (its yield
// points are ignored): used by the harness to make a short sequence of calls
// indivisible with respect to the other tasks.
//
//go:norace
func (s *Sched) Atomic(f func()) {
	s.atomicAdd(1)
	defer s.atomicAdd(-1)
	f()
}

//go:norace
func (s *Sched) atomicAdd(d int) {
	s.lock()
	s.noYield += d
	s.unlock()
}

// Yield is a preemption point of the running task.
//
//go:norace
func (s *Sched) Yield(point string) {
	if s.aborted || s.noYield > 0 {
		return
	}
	if s.Probe != nil && !s.Probe() {
		return // a lock of the system under test is held: parking here could block the others
	}
	s.lock()
	cur := s.cur
	s.unlock()
	if cur == nil {
		return
	}
	s.dispatch(cur, point)
}

// BlockUntil parks the running task until cond holds. The condition is only
// ever evaluated by the task that waits for it (it reads the waiting task's
// own memory): the scheduler wakes a blocked task to let it poll.
//
//go:norace
func (s *Sched) BlockUntil(cond func() bool) {
	first := true
	for {
		if s.aborted {
			return
		}
		raceDisable()
		ok := cond()
		raceEnable()
		s.lock()
		cur := s.cur
		if cur == nil {
			s.unlock()
			return
		}
		if ok {
			cur.state = tRunnable
			s.pollFails = 0
			s.unlock()
			return
		}
		cur.state = tBlocked
		if first {
			// The task arrives here from real work (it ran as a runnable task
			// since its last scheduling point): whatever it did may have made the
			// other waiters' conditions true, so they all get to poll again
			// before a deadlock is declared. (Without this a writer that
			// published what everybody was waiting for and then went to wait
			// itself was taken for the last link of a deadlock - false alarm of
			// the scheduler met in the thorough tier, 1 in 200 000 runs.)
			s.pollFails = 0
			first = false
		}
		s.pollFails++
		s.unlock()
		s.dispatch(cur, "block")
	}
}

// Sleep parks the running task for d of simulated time.
//
//go:norace
func (s *Sched) Sleep(d time.Duration) bool {
	if s.aborted {
		return true
	}
	s.lock()
	cur := s.cur
	if cur != nil {
		cur.state = tSleeping
		cur.wakeAt = s.now + d
	}
	s.unlock()
	if cur == nil {
		return false
	}
	s.dispatch(cur, "sleep")
	return true
}

// CurName returns the name of the running task ("" outside a run).
//
//go:norace
func (s *Sched) CurName() string {
	s.lock()
	defer s.unlock()
	if s.cur == nil {
		return ""
	}
	return s.cur.name
}

// Now returns the simulated time.
//
//go:norace
func (s *Sched) Now() time.Duration { return s.now }

// Adjacency returns the distinct (task:yield point>next task) switches of the run.
func (s *Sched) Adjacency() map[string]int {
	m := map[string]int{}
	for _, k := range s.adj {
		m[k]++
	}
	return m
}

// schedTrace (debugging aid): print every scheduling decision to stderr.
var schedTrace = os.Getenv("VERIF_SCHED_TRACE") != ""

// dispatch chooses the next task. from is the calling task (nil when it has
// exited); the caller is parked unless it is chosen again.
//
//go:norace
func (s *Sched) dispatch(from *task, point string) {
	s.lock()
	s.yields++
	if s.Quantum > 0 {
		s.now += s.Quantum
		s.SimTime += s.Quantum
	}
	if from != nil {
		from.point = point
	}
	var next *task
	harnessLeft := false
	for _, t := range s.tasks {
		if t.harness && t.state != tDone {
			harnessLeft = true
		}
	}
	if !harnessLeft {
		// only background tasks of the system are left (e.g. a pruner that
		// sleeps forever): the run is over
		s.finishLocked("")
		s.unlock()
		if from != nil {
			s.park(from) // never returns: the run is over and the task exits
		}
		return
	}
	if from == nil || from.state != tBlocked {
		s.pollFails = 0 // a task made real progress (or ended) since the last failed poll
	}
	for {
		for _, t := range s.tasks {
			if t.state == tSleeping && t.wakeAt <= s.now {
				t.state = tRunnable
			}
		}
		// candidates: the caller first (if it can continue), then the other
		// runnable tasks, then the blocked ones (waking one lets it poll its
		// condition) - unless every blocked task has just polled in vain
		var cands []*task
		if from != nil && from.state == tRunnable {
			cands = append(cands, from)
		}
		for _, t := range s.tasks {
			if t != from && t.state == tRunnable {
				cands = append(cands, t)
			}
		}
		nRunnable := len(cands)
		nBlocked := 0
		for _, t := range s.tasks {
			if t.state == tBlocked {
				nBlocked++
			}
		}
		if s.pollFails <= nBlocked {
			// round-robin over the blocked tasks, starting after the caller
			start := 0
			if from != nil {
				start = from.id + 1
			}
			for k := 0; k < len(s.tasks); k++ {
				t := s.tasks[(start+k)%len(s.tasks)]
				if t.state == tBlocked && (t != from || nBlocked == 1 && nRunnable == 0 && s.pollFails == 0) {
					cands = append(cands, t)
				}
			}
		}
		if len(cands) > 0 {
			c := 0
			if len(cands) > 1 {
				switch {
				case s.yields > s.maxYields:
					c = 0 // bound reached: no more preemption
				case s.useRep:
					if s.pos < len(s.replay) {
						c = s.replay[s.pos]
						if c < 0 {
							c = -c
						}
						c %= len(cands)
					}
					s.pos++
				default:
					switch {
					case nRunnable == 0:
						c = 0 // only pollers: strict round-robin
					case from == nil || from.state != tRunnable:
						c = s.rng.Intn(nRunnable)
						if len(cands) > nRunnable && s.rng.Intn(4) == 0 {
							c = nRunnable + s.rng.Intn(len(cands)-nRunnable)
						}
					case s.rng.Intn(s.swDen) < s.swNum:
						c = 1 + s.rng.Intn(len(cands)-1)
					}
				}
				s.Rec = append(s.Rec, c)
			}
			next = cands[c]
			break
		}
		// nothing can run: advance simulated time to the next wake-up ...
		var wake *task
		for _, t := range s.tasks {
			if t.state == tSleeping && (wake == nil || t.wakeAt < wake.wakeAt) {
				wake = t
			}
		}
		if wake != nil {
			if wake.wakeAt > s.now {
				s.SimTime += wake.wakeAt - s.now
				s.now = wake.wakeAt
			}
			s.pollFails = 0
			continue
		}
		// ... or report the deadlock
		var names []string
		for _, t := range s.tasks {
			if t.state == tBlocked {
				names = append(names, fmt.Sprintf("%s@%s", t.name, t.point))
			}
		}
		sort.Strings(names)
		s.finishLocked(fmt.Sprintf("deadlock: no runnable task, blocked: %v", names))
		s.unlock()
		if from != nil {
			s.park(from)
		}
		return
	}
	if schedTrace {
		fn, nn := "-", "-"
		if from != nil {
			fn = fmt.Sprintf("%s(%d)", from.name, from.state)
		}
		if next != nil {
			nn = next.name
		}
		fmt.Fprintf(os.Stderr, "sched: t=%v %s@%s -> %s\n", s.now, fn, point, nn)
	}
	prev := s.cur
	s.cur = next
	if next != from {
		s.Switches++
		key := ">" + point
		if prev != nil {
			key = prev.name + ":" + point + ">" + next.name
		}
		if len(s.adj) < 20000 {
			s.adj = append(s.adj, key)
		}
	}
	s.lastPoint = point
	s.unlock()
	if next == from {
		return
	}
	s.wakeTask(next)
	if from != nil && from.state != tDone {
		s.park(from)
	}
}

// finishLocked ends the run: every parked task is woken and exits.
//
//go:norace
func (s *Sched) finishLocked(problem string) {
	if s.aborted {
		return
	}
	s.aborted = true
	s.problem = problem
	s.cur = nil
	for _, t := range s.tasks {
		if t.state != tDone {
			raceDisable()
			select {
			case t.wake <- struct{}{}:
			default:
			}
			raceEnable()
		}
	}
	s.finOnce.Do(func() { close(s.finished) })
}

// Abort ends the run from the running task (e.g. after a violation): all
// other tasks exit; the caller continues and must return soon.
//
//go:norace
func (s *Sched) Abort() {
	s.lock()
	cur := s.cur
	s.finishLocked(s.problem)
	if cur != nil && cur.state != tDone {
		// the caller keeps running to its end without being scheduled
		select {
		case <-cur.wake:
		default:
		}
	}
	s.unlock()
}

// Run starts the first task and waits until every task has ended. It returns
// a description of a scheduling problem (deadlock) or "".
//
//go:norace
func (s *Sched) Run(timeout time.Duration) string {
	s.lock()
	if len(s.tasks) == 0 {
		s.unlock()
		return ""
	}
	s.unlock()
	s.dispatch(nil, "start")
	doneCh := make(chan struct{})
	go func() {
		s.wg.Wait()
		close(doneCh)
	}()
	select {
	case <-doneCh:
	case <-time.After(timeout):
		s.lock()
		var names []string
		for _, t := range s.tasks {
			if t.state != tDone {
				names = append(names, fmt.Sprintf("%s@%s", t.name, t.point))
			}
		}
		s.problem = fmt.Sprintf("hang: tasks still running after %v: %v", timeout, names)
		s.unlock()
	}
	return s.problem
}

// GoroutineBlockedInLock inspects all goroutine stacks and reports whether a
// goroutine that runs the function named fn is blocked inside a lock
// acquisition of package sync (Mutex.Lock, RWMutex.Lock, RWMutex.RLock). Used
// by the modes that queue a REAL goroutine on a lock of the code under test
// and then let the lock, not timing, decide who runs.
func GoroutineBlockedInLock(fn string) bool {
	buf := make([]byte, 1<<18)
	n := runtime.Stack(buf, true)
	for _, sec := range strings.Split(string(buf[:n]), "\n\n") {
		if !strings.Contains(sec, fn) {
			continue
		}
		nl := strings.IndexByte(sec, '\n')
		if nl < 0 {
			continue
		}
		head := sec[:nl]
		if strings.Contains(head, "running") || strings.Contains(head, "runnable") {
			continue
		}
		if strings.Contains(sec, "RWMutex).RLock") || strings.Contains(sec, "RWMutex).Lock") || strings.Contains(sec, "Mutex).Lock") {
			return true
		}
	}
	return false
}
