package drv

import (
	"fmt"

	"verif/sim"
)

// Bias steers the plan generator towards a property's anchors.
type Bias struct {
	MinVersions, MaxVersions int
	MaxOpsPerVersion         int
	// Weights of the non-write steps placed between versions (per 100).
	Reopen, Load, Prune, LVFO, DVF, Discard, Recommit, ExpImp, Pin, Reads, SetNil, BadLoad int
	// NoopVersion is the chance (per 100) that a version has no writes.
	NoopVersion int
	// RemoveShare is the share (per 100) of removals among writes.
	RemoveShare int
	// Sizes: chance per 100 of tiny (1-3 keys) and small (<=8) pools; rest medium.
	Tiny, Small int
	// MediumMax bounds the medium key pool.
	MediumMax int
	// BigValues is the chance per 100 of a 40..200 byte value (crosses flush thresholds).
	BigValues int
	// Backends allowed (default simdb only).
	Backends []string
	// Flushes allowed (default a spread).
	Flushes []int
	// InitVers allowed initial versions (0 = unset).
	InitVers []int64
	// Order forces an insertion order for fresh keys: "" random, "asc", "desc", "alt".
	Order string
	// NormalForm: at most one write or removal per key per version (v2, C15 hashes).
	NormalForm bool
	// FastAlways / FastNever pin the fast-index setting.
	FastAlways, FastNever bool
	// Async enables asynchronous pruning in the configuration.
	Async bool
	// NoEmptyValues excludes empty values (ICS-23 cannot prove them).
	NoEmptyValues bool
	// SortedWrites issues the writes of a version in ascending key order, each
	// key at most once, removals only of present keys: the change-set normal form.
	SortedWrites bool
	// SaveCS is the chance per 100 that a version is committed through SaveChangeSet.
	SaveCS int
	// ReplayCS is the chance per 100 that the run ends with a change-set replay step.
	ReplayCS int
	// EmptyKey is the chance per 100 that one key of the pool is the empty
	// (non-nil) key. Only for runs that never enable the fast index: its lookup
	// refuses empty keys, and ICS-23 cannot prove them.
	EmptyKey int
}

// DefaultBias is the C01-style general workload.
func DefaultBias() Bias {
	return Bias{
		MinVersions: 2, MaxVersions: 12, MaxOpsPerVersion: 8,
		Reopen: 10, Load: 4, Prune: 10, LVFO: 5, DVF: 2, Discard: 6, Recommit: 4, SetNil: 3, BadLoad: 0,
		NoopVersion: 12, RemoveShare: 30, Tiny: 30, Small: 40, MediumMax: 40, BigValues: 10,
		Flushes:  []int{150, 200, 260, 320, 400, 1000, 100000},
		InitVers: []int64{0, 0, 0, 1, 7, 1 << 40},
	}
}

// Gen is the plan generator state.
type Gen struct {
	r    *sim.Rand
	b    Bias
	pool [][]byte
	ctr  int
	id   int

	first, latest, cur int64
	dirty              bool
	opsOf              map[int64][]Step // write steps that produced version v from v-1
	curOps             []Step
	pins               map[int64]bool
	fresh              int // index of next fresh key for ordered insertion
	touched            map[string]bool
	present            map[string]bool // sorted mode: keys known to be present
	initVer            int64
	pruned             bool

	steps []Step
}

// KeyPool builds a pool of n distinct non-empty keys containing adjacent,
// prefix-related, 1-byte and long keys.
func KeyPool(r *sim.Rand, n int) [][]byte {
	seen := map[string]bool{}
	var out [][]byte
	add := func(k []byte) {
		if len(k) == 0 || seen[string(k)] || len(out) >= n {
			return
		}
		seen[string(k)] = true
		out = append(out, k)
	}
	style := r.Intn(4)
	for tries := 0; len(out) < n && tries < 10*n+100; tries++ {
		switch {
		case style == 0 || r.Chance(1, 4):
			// short keys over a tiny alphabet: adjacent and prefix-related
			l := r.Range(1, 3)
			k := make([]byte, l)
			for i := range k {
				k[i] = "ab\x00\xff"[r.Intn(4)]
			}
			add(k)
		case style == 1:
			add([]byte(fmt.Sprintf("k%02d", r.Intn(3*n+2))))
		case style == 2:
			// extensions / prefixes of existing keys
			if len(out) > 0 && r.Chance(2, 3) {
				base := out[r.Intn(len(out))]
				if r.Chance(1, 2) || len(base) == 1 {
					add(append(append([]byte{}, base...), byte(r.Pick(0, 1, 'a', 0xff))))
				} else {
					add(append([]byte{}, base[:len(base)-1]...))
				}
			} else {
				add([]byte{byte(r.Intn(256))})
			}
		default:
			l := r.Pick(1, 2, 4, 8, 16, 33, 300)
			k := make([]byte, l)
			for i := range k {
				k[i] = byte(r.Intn(256))
			}
			add(k)
		}
	}
	for i := 0; len(out) < n; i++ {
		add([]byte(fmt.Sprintf("z%03d", i)))
	}
	return out
}

func sortKeys(ks [][]byte) {
	for i := 1; i < len(ks); i++ {
		for j := i; j > 0 && string(ks[j]) < string(ks[j-1]); j-- {
			ks[j], ks[j-1] = ks[j-1], ks[j]
		}
	}
}

// NewGen creates a generator.
func NewGen(r *sim.Rand, b Bias) *Gen {
	g := &Gen{r: r, b: b, opsOf: map[int64][]Step{}, pins: map[int64]bool{}, touched: map[string]bool{}}
	n := 0
	x := r.Intn(100)
	switch {
	case x < b.Tiny:
		n = r.Range(1, 3)
	case x < b.Tiny+b.Small:
		n = r.Range(3, 8)
	default:
		mm := b.MediumMax
		if mm < 9 {
			mm = 9
		}
		n = r.Range(9, mm)
	}
	g.pool = KeyPool(r, n)
	if b.EmptyKey > 0 && r.Chance(b.EmptyKey, 100) {
		g.pool[r.Intn(len(g.pool))] = []byte{}
	}
	switch b.Order {
	case "asc":
		sortKeys(g.pool)
	case "desc":
		sortKeys(g.pool)
		for i, j := 0, len(g.pool)-1; i < j; i, j = i+1, j-1 {
			g.pool[i], g.pool[j] = g.pool[j], g.pool[i]
		}
	case "alt":
		sortKeys(g.pool)
		alt := make([][]byte, 0, len(g.pool))
		for i, j := 0, len(g.pool)-1; i <= j; i, j = i+1, j-1 {
			alt = append(alt, g.pool[i])
			if i != j {
				alt = append(alt, g.pool[j])
			}
		}
		g.pool = alt
	}
	return g
}

// Config draws a configuration.
func (g *Gen) Config() Config {
	r, b := g.r, g.b
	c := Config{
		Cache:   r.Pick(0, 0, 1, 2, 7, 1000),
		Fast:    r.Chance(1, 2),
		Sync:    r.Chance(1, 4),
		Backend: "simdb",
		AcctLDB: r.Chance(1, 3),
	}
	if b.FastAlways {
		c.Fast = true
	}
	if b.FastNever {
		c.Fast = false
	}
	fl := b.Flushes
	if len(fl) == 0 {
		fl = []int{100000}
	}
	c.Flush = fl[r.Intn(len(fl))]
	if len(b.Backends) > 0 {
		c.Backend = b.Backends[r.Intn(len(b.Backends))]
	}
	if len(b.InitVers) > 0 {
		c.InitVer = b.InitVers[r.Intn(len(b.InitVers))]
		if c.InitVer > 0 {
			c.InitMode = []string{"opt", "set"}[r.Intn(2)]
		}
	}
	c.AsyncPrune = b.Async
	g.initVer = c.InitVer
	return c
}

func (g *Gen) emit(s Step) {
	g.id++
	s.ID = g.id
	g.steps = append(g.steps, s)
}

func (g *Gen) value() []byte {
	g.ctr++
	r := g.r
	switch {
	case !g.b.NoEmptyValues && r.Chance(1, 25):
		return []byte{}
	case r.Chance(g.b.BigValues, 100):
		n := r.Range(40, 200)
		v := make([]byte, n)
		copy(v, fmt.Sprintf("V%d:", g.ctr))
		for i := len(fmt.Sprintf("V%d:", g.ctr)); i < n; i++ {
			v[i] = byte('a' + i%26)
		}
		return v
	default:
		return []byte(fmt.Sprintf("v%d", g.ctr))
	}
}

func (g *Gen) key() []byte {
	if g.b.Order != "" && g.fresh < len(g.pool) && g.r.Chance(3, 4) {
		k := g.pool[g.fresh]
		g.fresh++
		return k
	}
	return g.pool[g.r.Intn(len(g.pool))]
}

func (g *Gen) nextVersion() int64 {
	if g.cur == 0 && g.latest == 0 && g.initVer > 0 {
		return g.initVer
	}
	return g.cur + 1
}

// writes emits the write steps of one version.
func (g *Gen) writes() {
	r := g.r
	n := 0
	if !r.Chance(g.b.NoopVersion, 100) {
		n = r.Range(1, g.b.MaxOpsPerVersion)
	}
	g.touched = map[string]bool{}
	if g.b.SortedWrites {
		g.sortedWrites(n)
		return
	}
	for i := 0; i < n; i++ {
		k := g.key()
		if g.b.NormalForm {
			if g.touched[string(k)] {
				continue
			}
			g.touched[string(k)] = true
		}
		var s Step
		switch {
		case r.Chance(g.b.SetNil, 100):
			s = Step{Op: OpSetNil, K: k}
		case r.Chance(g.b.RemoveShare, 100):
			s = Step{Op: OpRemove, K: k}
		default:
			s = Step{Op: OpSet, K: k, V: g.value()}
		}
		g.emit(s)
		if s.Op != OpSetNil {
			g.curOps = append(g.curOps, s)
			g.dirty = true
		}
	}
}

// sortedWrites emits up to n writes in ascending key order, one per key,
// removing only keys the generator knows to be present.
func (g *Gen) sortedWrites(n int) {
	picked := map[string]bool{}
	var ks [][]byte
	for i := 0; i < n; i++ {
		k := g.key()
		if !picked[string(k)] {
			picked[string(k)] = true
			ks = append(ks, k)
		}
	}
	sortKeys(ks)
	if g.present == nil {
		g.present = map[string]bool{}
	}
	for _, k := range ks {
		var s Step
		if g.present[string(k)] && g.r.Chance(g.b.RemoveShare, 100) {
			s = Step{Op: OpRemove, K: k}
			delete(g.present, string(k))
		} else {
			s = Step{Op: OpSet, K: k, V: g.value()}
			g.present[string(k)] = true
		}
		g.emit(s)
		g.curOps = append(g.curOps, s)
		g.dirty = true
	}
}

// changeSet emits a SaveChangeSet step committing the next version.
func (g *Gen) changeSet() {
	r := g.r
	n := r.Range(0, g.b.MaxOpsPerVersion)
	picked := map[string]bool{}
	var ks [][]byte
	// a quarter of the change sets are not in the normal form extraction
	// produces: pairs in arbitrary order, keys repeated (set then remove,
	// remove then set, set twice); they are applied pair by pair all the same
	raw := !g.b.SortedWrites && r.Chance(1, 4) // (histories that must stay in normal form keep it)
	for i := 0; i < n; i++ {
		k := g.key()
		if raw && len(ks) > 0 && r.Chance(1, 3) {
			k = ks[r.Intn(len(ks))]
		}
		if raw || !picked[string(k)] {
			picked[string(k)] = true
			ks = append(ks, k)
		}
	}
	if !raw {
		sortKeys(ks)
	}
	if g.present == nil {
		g.present = map[string]bool{}
	}
	var cs []CSPair
	bad := false
	for _, k := range ks {
		switch {
		case g.present[string(k)] && r.Chance(g.b.RemoveShare, 100):
			cs = append(cs, CSPair{Del: true, K: k})
			delete(g.present, string(k))
		case !g.present[string(k)] && r.Chance(1, 12):
			cs = append(cs, CSPair{Del: true, K: k}) // removal of a missing key: must be rejected
			bad = true
		default:
			cs = append(cs, CSPair{K: k, V: g.value()})
			g.present[string(k)] = true
		}
		if bad {
			break
		}
	}
	g.emit(Step{Op: OpChangeSt, CS: cs})
	if bad {
		// the rejected change set leaves its first pairs uncommitted: discard them
		g.emit(Step{Op: OpDiscard})
		g.present = nil // unknown from here on: sorted mode only removes what it re-learns
		return
	}
	nv := g.nextVersion()
	if g.first == 0 {
		g.first = nv
	}
	g.latest, g.cur = nv, nv
	g.curOps, g.dirty = nil, false
}

func (g *Gen) save() {
	nv := g.nextVersion()
	g.emit(Step{Op: OpSave})
	if g.cur < g.latest {
		// re-commit of an existing version: succeeds only when identical
		if !g.dirty {
			g.cur = nv
		}
		// if it fails the handle keeps its base and its changes
		if g.dirty {
			return
		}
	} else {
		g.opsOf[nv] = g.curOps
		if g.first == 0 {
			g.first = nv
		}
		g.latest = nv
		g.cur = nv
	}
	g.curOps = nil
	g.dirty = false
}

func (g *Gen) retainedPick() int64 {
	if g.latest == 0 {
		return 0
	}
	return g.first + int64(g.r.Intn(int(g.latest-g.first+1)))
}

func bp(b bool) *bool { return &b }
func ip(i int) *int   { return &i }

// between emits the steps placed between two versions.
func (g *Gen) between() {
	r, b := g.r, g.b
	roll := func(w int) bool { return w > 0 && r.Chance(w, 100) }
	if roll(b.Discard) && g.cur == g.latest {
		// some uncommitted writes, then discard them
		saveOps := g.curOps
		g.writes()
		g.emit(Step{Op: OpDiscard})
		g.curOps = saveOps
		g.dirty = false
	}
	if g.latest == 0 {
		if roll(b.Reopen) {
			g.emit(Step{Op: OpReopen, Fast: g.fastChoice(), Cache: ip(r.Pick(0, 1, 2, 7, 1000))})
			g.curOps, g.dirty = nil, false
		}
		return
	}
	if roll(b.Pin) && len(g.pins) < 2 {
		v := g.retainedPick()
		if !g.pins[v] {
			g.pins[v] = true
			g.emit(Step{Op: OpPin, N: v})
		}
	}
	if roll(b.Prune) && g.cur == g.latest {
		var n int64
		switch x := r.Intn(10); {
		case x == 0:
			n = g.latest // must be rejected
		case x == 1:
			n = g.latest + int64(r.Range(1, 3))
		case x == 2 && g.first > 1:
			n = int64(r.Intn(int(g.first))) // a stale request anywhere below the first version: no-op
		default:
			if g.latest > g.first {
				n = g.first + int64(r.Intn(int(g.latest-g.first)))
				if r.Chance(1, 2) {
					n = g.first // one version at a time is the SDK pattern
				}
			} else {
				n = g.latest
			}
		}
		g.emit(Step{Op: OpPrune, N: n})
		pinned := false
		for v := range g.pins {
			if v <= n && v >= g.first {
				pinned = true
			}
		}
		if n < g.latest && n >= g.first && !pinned {
			g.first = n + 1
		}
	}
	if roll(b.Pin) {
		for v := range g.pins {
			g.emit(Step{Op: OpUnpin, N: v})
			delete(g.pins, v)
			break
		}
	}
	if b.Pin > 0 && roll(b.LVFO) && len(g.pins) == 0 && g.latest > g.first && g.cur == g.latest {
		// a rollback refused because an erased version is being exported, then
		// repeated after the export was closed
		v := g.first + int64(r.Intn(int(g.latest-g.first)))
		g.emit(Step{Op: OpPin, N: g.latest})
		g.emit(Step{Op: OpLVFO, N: v})
		g.emit(Step{Op: OpUnpin, N: g.latest})
		if r.Chance(1, 2) && v > g.first {
			v-- // ... or to an older version
		}
		g.emit(Step{Op: OpLVFO, N: v})
		g.latest, g.cur = v, v
		g.curOps, g.dirty = nil, false
	}
	if roll(b.LVFO) && len(g.pins) == 0 {
		v := g.retainedPick()
		if !b.SortedWrites && g.cur == g.latest && r.Chance(1, 3) {
			// roll back with uncommitted changes pending: they must be discarded too
			g.writes()
			if r.Chance(1, 2) {
				v = g.latest
			}
		}
		g.emit(Step{Op: OpLVFO, N: v})
		g.latest, g.cur = v, v
		g.curOps, g.dirty = nil, false
	}
	if roll(b.DVF) && len(g.pins) == 0 {
		v := g.retainedPick()
		g.emit(Step{Op: OpDVF, N: v})
		g.latest, g.cur = v, v
		g.curOps, g.dirty = nil, false
	}
	if roll(b.ExpImp) && g.cur == g.latest && len(g.pins) == 0 {
		v := g.retainedPick()
		g.emit(Step{Op: OpExpImp, N: v, Codec: []string{"plain", "compress"}[r.Intn(2)], Fast: g.fastChoice(), Cache: ip(r.Pick(0, 2, 1000))})
		g.first, g.latest, g.cur = v, v, v
		g.curOps, g.dirty = nil, false
	}
	if roll(b.Reopen) && len(g.pins) == 0 {
		if !b.SortedWrites && g.cur == g.latest && r.Chance(1, 4) {
			g.writes() // uncommitted changes are lost by a restart
		}
		g.emit(Step{Op: OpReopen, Fast: g.fastChoice(), Cache: ip(r.Pick(0, 1, 2, 7, 1000))})
		g.cur = g.latest
		g.curOps, g.dirty = nil, false
	}
	if roll(b.Load) && len(g.pins) == 0 {
		v := g.retainedPick()
		if !b.SortedWrites && g.cur == g.latest && r.Chance(1, 4) {
			g.writes() // LoadVersion on a handle with uncommitted changes discards them
		}
		op := OpLoad
		s := Step{Op: op, N: v}
		if r.Chance(1, 2) {
			s = Step{Op: OpReopen, N: v, Fast: g.fastChoice(), Cache: ip(r.Pick(0, 2, 1000))}
		}
		g.emit(s)
		g.cur = v
		g.curOps, g.dirty = nil, false
		if v < g.latest {
			stay := false
			// what follows: identical re-commit, different re-commit, or go back to latest
			switch r.Intn(4) {
			case 3:
				// commit without any write on top of the older version: identical
				// only if the next version was a commit without writes too
				g.emit(Step{Op: OpSave})
			case 0:
				if roll(50 + b.Recommit) {
					for _, o := range g.opsOf[v+1] {
						g.emit(Step{Op: o.Op, K: o.K, V: o.V})
					}
					g.emit(Step{Op: OpSave})
					g.cur = v + 1
					if !b.SortedWrites && r.Chance(1, 2) {
						// discard (with or without uncommitted writes) right after the
						// identical re-commit: the handle must stay at version v+1
						if r.Chance(1, 2) {
							saveOps := g.curOps
							g.writes()
							g.curOps = saveOps
						}
						g.emit(Step{Op: OpDiscard})
						g.dirty = false
						if g.cur == g.latest && r.Chance(2, 3) {
							// ... and the history goes on from this handle
							g.curOps = nil
							stay = true
							break
						}
						if r.Chance(1, 2) {
							g.emit(Step{Op: OpSave}) // v+2 again: identical only if it was a commit without writes
						}
					}
				}
			case 1:
				g.emit(Step{Op: OpSet, K: g.key(), V: g.value()})
				g.emit(Step{Op: OpSave}) // must fail, store unchanged
			}
			if stay {
				return
			}
			// return to the latest version before continuing the history
			g.emit(Step{Op: OpReopen, Fast: g.fastChoice(), Cache: ip(r.Pick(0, 2, 1000))})
			g.cur = g.latest
			g.curOps, g.dirty = nil, false
		}
	}
	if roll(b.BadLoad) {
		if !b.SortedWrites && g.cur == g.latest && r.Chance(1, 2) {
			// with uncommitted writes pending: they belong to the next version
			g.writes()
		}
		g.emit(Step{Op: OpBadLoad, N: []int64{0, g.first - 1, g.latest + 1, g.latest + 5}[r.Intn(4)]})
	}
	if roll(b.Reads) {
		g.emit(Step{Op: OpReads, Reads: g.readBundle()})
	}
}

func (g *Gen) fastChoice() *bool {
	switch {
	case g.b.FastAlways:
		return bp(true)
	case g.b.FastNever:
		return bp(false)
	}
	return bp(g.r.Chance(1, 2))
}

// ReadCalls are the read-only calls a reads bundle may contain.
var ReadCalls = []string{"get", "has", "getwithindex", "getbyindex", "iterate", "iterator", "proof", "membership", "nonmembership", "hash", "workinghash", "getversioned", "versionexists", "getimmutable", "size", "available"}

func (g *Gen) readBundle() []string {
	n := g.r.Range(1, 5)
	out := make([]string, n)
	for i := range out {
		out[i] = ReadCalls[g.r.Intn(len(ReadCalls))]
	}
	return out
}

// History generates the steps of one run.
func (g *Gen) History() []Step {
	nv := g.r.Range(g.b.MinVersions, g.b.MaxVersions)
	if g.b.Discard > 0 && !g.b.SortedWrites && g.r.Chance(g.b.Discard, 100) {
		// uncommitted writes discarded before the very first commit
		g.writes()
		g.emit(Step{Op: OpDiscard})
		g.curOps, g.dirty = nil, false
	}
	for v := 0; v < nv; v++ {
		if g.b.SaveCS > 0 && g.cur == g.latest && !g.dirty && g.r.Chance(g.b.SaveCS, 100) {
			g.changeSet()
			g.between()
			continue
		}
		g.writes()
		if g.b.Reads > 0 && g.r.Chance(g.b.Reads, 100) {
			g.emit(Step{Op: OpReads, Reads: g.readBundle()})
		}
		g.save()
		g.between()
	}
	if g.b.ReplayCS > 0 && g.r.Chance(g.b.ReplayCS, 100) {
		n := int64(0)
		if g.b.SortedWrites {
			n = 1 // writes were issued in change-set normal form: hashes must be reproduced too
		}
		g.emit(Step{Op: OpImportCS, N: n})
	}
	// leave some uncommitted changes at the end half of the time
	if g.r.Chance(1, 2) && g.cur == g.latest {
		g.writes()
	}
	return g.steps
}

// StartAt makes the generator continue a history that already has the
// versions first..latest (legacy databases) and number its steps from id.
func (g *Gen) StartAt(first, latest int64, id int) {
	g.first, g.latest, g.cur = first, latest, latest
	g.id = id
}

// Steps returns the steps emitted so far.
func (g *Gen) Steps() []Step { return g.steps }

// Pool returns the key pool.
func (g *Gen) Pool() [][]byte { return g.pool }
