// Package drv is the v1 driver: plans, their execution against the real
// MutableTree over the simulated disk in lock-step with the reference models,
// and the oracle library the per-property checks are assembled from.
package drv

import (
	"encoding/hex"
	"encoding/json"
	"fmt"
	"strings"

	"verif/sim"
)

// Hex is a byte string that serialises as hex in JSON.
type Hex []byte

func (h Hex) MarshalJSON() ([]byte, error) {
	if h == nil {
		return []byte("null"), nil
	}
	return json.Marshal(hex.EncodeToString(h))
}

func (h *Hex) UnmarshalJSON(b []byte) error {
	if string(b) == "null" {
		*h = nil
		return nil
	}
	var s string
	if err := json.Unmarshal(b, &s); err != nil {
		return err
	}
	d, err := hex.DecodeString(s)
	if err != nil {
		return err
	}
	if d == nil {
		d = []byte{}
	}
	*h = d
	return nil
}

// Config is the configuration of one simulated run.
type Config struct {
	Cache      int    `json:"cache"`
	Fast       bool   `json:"fast"`
	Flush      int    `json:"flush"`
	Sync       bool   `json:"sync"`
	InitVer    int64  `json:"initial_version,omitempty"`
	InitMode   string `json:"init_mode,omitempty"` // "opt" (InitialVersionOption) | "set" (SetInitialVersion)
	Backend    string `json:"backend"`             // simdb | memdb | leveldb | prefix-memdb | prefix-leveldb | prefix-simdb
	AcctLDB    bool   `json:"acct_leveldb,omitempty"`
	AsyncPrune bool   `json:"async_prune,omitempty"`
	// QuantumUs: simulated microseconds per scheduling decision (concurrent runs; 0 = the
	// clock only advances when every task sleeps or waits).
	QuantumUs int `json:"quantum_us,omitempty"`
}

// Step op codes.
const (
	OpSet      = "set"
	OpSetNil   = "setnil"
	OpRemove   = "remove"
	OpSave     = "save"
	OpDiscard  = "discard"  // MutableTree.Rollback()
	OpReopen   = "reopen"   // drop handle, new handle, LoadVersion(N) (0 = latest)
	OpLoad     = "load"     // LoadVersion(N) on the live handle
	OpPrune    = "prune"    // DeleteVersionsTo(N)
	OpLVFO     = "lvfo"     // LoadVersionForOverwriting(N)
	OpDVF      = "dvf"      // DeleteVersionsFrom(N+1) + reopen + LoadVersion(N)
	OpReads    = "reads"    // read-only bundle (C02 interleaving)
	OpExpImp   = "expimp"   // export version N, import into an empty database, continue on the imported tree
	OpPin      = "pin"      // open an Exporter on version N and keep it open
	OpUnpin    = "unpin"    // close the exporter opened by pin on version N
	OpBadLoad  = "badload"  // LoadVersion / GetImmutable / GetVersioned of a version outside the range
	OpChangeSt = "savecs"   // SaveChangeSet with the pairs in CS
	OpSetIV    = "setiv"    // SetInitialVersion(N)
	OpImportCS = "replaycs" // extract all change sets and replay them into an empty tree (C15)
)

// CSPair is one change-set entry.
type CSPair struct {
	Del bool `json:"del,omitempty"`
	K   Hex  `json:"k"`
	V   Hex  `json:"v"`
}

// Step is one plan step with literal arguments.
type Step struct {
	ID    int      `json:"id"`
	Op    string   `json:"op"`
	K     Hex      `json:"k,omitempty"`
	V     Hex      `json:"v"`
	N     int64    `json:"n,omitempty"`
	Fast  *bool    `json:"fast,omitempty"`
	Cache *int     `json:"cache,omitempty"`
	Codec string   `json:"codec,omitempty"` // expimp: "plain" | "compress"
	Reads []string `json:"reads,omitempty"` // reads bundle: names of read-only calls
	CS    []CSPair `json:"cs,omitempty"`
}

func (s Step) String() string {
	var sb strings.Builder
	fmt.Fprintf(&sb, "%d:%s", s.ID, s.Op)
	if s.K != nil {
		fmt.Fprintf(&sb, " k=%x", []byte(s.K))
	}
	if s.V != nil {
		fmt.Fprintf(&sb, " v=%x", []byte(s.V))
	}
	if s.N != 0 {
		fmt.Fprintf(&sb, " n=%d", s.N)
	}
	if s.Fast != nil {
		fmt.Fprintf(&sb, " fast=%v", *s.Fast)
	}
	if s.Cache != nil {
		fmt.Fprintf(&sb, " cache=%d", *s.Cache)
	}
	if s.Codec != "" {
		fmt.Fprintf(&sb, " codec=%s", s.Codec)
	}
	if len(s.Reads) > 0 {
		fmt.Fprintf(&sb, " reads=%s", strings.Join(s.Reads, ","))
	}
	if len(s.CS) > 0 {
		fmt.Fprintf(&sb, " cs=%d", len(s.CS))
	}
	return sb.String()
}

// Crash is a crash-point fault: stop after physical write Write (0-based count
// of writes of step Step that are durable).
type Crash struct {
	Step  int `json:"step"`
	Write int `json:"write"`
}

// Corrupt is a stored-byte corruption fault applied before step Step.
type Corrupt struct {
	Step int    `json:"step"`
	What string `json:"what"` // root | rootmarker | fast | label | node
	Mut  string `json:"mut"`  // flip:<bit> | trunc:<n> | ext:<n> | rand:<n> | prefixgarbage:<n>
	Sel  int    `json:"sel"`  // which entry of that class
}

// ChanFault is a fault on the exporter -> importer channel.
type ChanFault struct {
	Elem int    `json:"elem"`
	Mut  string `json:"mut"`
	Arg  int64  `json:"arg,omitempty"`
}

// Expect is the violation a replay file is expected to reproduce.
type Expect struct {
	Prop    string `json:"property"`
	Oracle  string `json:"oracle"`
	Symptom string `json:"symptom"`
	Class   string `json:"class"`
	Site    string `json:"site,omitempty"`
	Detail  string `json:"detail,omitempty"`
}

// Plan is the explicit, replayable description of one simulated execution.
type Plan struct {
	Engine   string      `json:"engine"`
	Property string      `json:"property"`
	Seed     uint64      `json:"seed"`
	Run      int         `json:"run"`
	Mode     string      `json:"mode,omitempty"` // engine-specific sub-mode
	Config   Config      `json:"config"`
	Twin     *Config     `json:"twin,omitempty"`
	Steps    []Step      `json:"steps"`
	Crashes  []Crash     `json:"crashes,omitempty"`
	IOFaults []sim.Fault `json:"io_faults,omitempty"`
	Corrupts []Corrupt   `json:"corrupts,omitempty"`
	Chan     []ChanFault `json:"chan,omitempty"`
	Schedule []int       `json:"schedule,omitempty"`
	// UseSchedule makes a concurrent run replay Schedule (also when it is
	// empty) instead of drawing scheduling choices from the run's PRNG.
	UseSchedule bool    `json:"use_schedule,omitempty"`
	Extra       Extra   `json:"extra,omitempty"`
	Expect      *Expect `json:"expect,omitempty"`
}

// Extra carries engine-specific literal data.
type Extra map[string]json.RawMessage

// Clone deep-copies a plan through JSON.
func (p *Plan) Clone() *Plan {
	b, err := json.Marshal(p)
	if err != nil {
		panic(err)
	}
	var q Plan
	if err := json.Unmarshal(b, &q); err != nil {
		panic(err)
	}
	return &q
}

// Compact renders the plan's steps on one line (evidence samples).
func (p *Plan) Compact() string {
	parts := make([]string, 0, len(p.Steps))
	for _, s := range p.Steps {
		parts = append(parts, s.String())
	}
	return fmt.Sprintf("cfg{cache=%d fast=%v flush=%d iv=%d/%s be=%s} %s", p.Config.Cache, p.Config.Fast, p.Config.Flush, p.Config.InitVer, p.Config.InitMode, p.Config.Backend, strings.Join(parts, " | "))
}

// Violation is a property violation found by an oracle.
type Violation struct {
	Prop    string `json:"property"`
	Oracle  string `json:"oracle"`
	Symptom string `json:"symptom"`
	Class   string `json:"class"`
	Site    string `json:"site,omitempty"`
	Detail  string `json:"detail"`
	StepID  int    `json:"step"`
}

// Sig is the violation signature used for de-duplication, shrinking and
// matching against KNOWN_FINDINGS.txt.
func (v *Violation) Sig() string {
	return v.Oracle + "|" + v.Symptom + "|" + v.Class + "|" + v.Site
}

func (v *Violation) Error() string {
	return fmt.Sprintf("%s %s (step %d): %s", v.Prop, v.Sig(), v.StepID, v.Detail)
}

// SameClass reports whether two violations belong to the same signature class
// (used by the shrinker; the site is ignored when either has none).
func (v *Violation) SameClass(o *Violation) bool {
	if v == nil || o == nil {
		return false
	}
	if v.Prop != o.Prop || v.Oracle != o.Oracle || v.Symptom != o.Symptom || v.Class != o.Class {
		return false
	}
	return v.Site == "" || o.Site == "" || v.Site == o.Site
}
