package drv

import (
	"bytes"
	"fmt"
	"os"
	"runtime/debug"
	"sort"
	"strings"

	corestore "cosmossdk.io/core/store"
	"github.com/cosmos/iavl"
	dbm "github.com/cosmos/iavl/db"

	"verif/ref"
	"verif/sim"
)

// Probes counts "this rare condition was hit" events (evidence).
type Probes map[string]int

func (p Probes) Inc(name string) { p[name]++ }
func (p Probes) Add(o Probes) {
	for k, v := range o {
		p[k] += v
	}
}

// World is one real tree on one (simulated) disk in lock-step with R1 and R2.
type World struct {
	Cfg  Config
	DB   corestore.KVStoreWithBatch
	Sim  *sim.SimDB // nil for real backends
	Tree *iavl.MutableTree
	M    *ref.VMap
	T    *ref.Tree

	Fast  bool // current handle opened with the fast index enabled
	Cache int

	Universe map[string]bool
	Pins     map[int64]*iavl.Exporter
	P        Probes

	// Hashes records (version, hash) of every commit in order (C02 twin compare).
	Hashes []CommitRec

	ldb     *dbm.GoLevelDB
	ldbDir  string
	scratch string
	curStep int

	// KeepSnaps makes the simulated disk keep a snapshot per physical write
	// (crash-image checks).
	KeepSnaps bool
	// FreeHelpers is set once a free-running iavl goroutine (an exporter kept
	// open as a pin) shares the disk: per-step storage call counts then depend
	// on timing and are left out of the event log (results are not).
	FreeHelpers bool
	// Imported is set once the run continued on an imported database (node
	// keys were re-assigned, so nonces are no longer R2's pre-order numbers).
	Imported bool
}

// CommitRec is one commit's observable result.
type CommitRec struct {
	Step    int
	Version int64
	Hash    []byte
	Err     bool
}

// NewWorld creates the world of a plan; Open must be called next.
func NewWorld(cfg Config) *World {
	w := &World{
		Cfg:      cfg,
		M:        ref.NewVMap(),
		T:        ref.NewTree(),
		Universe: map[string]bool{},
		Pins:     map[int64]*iavl.Exporter{},
		P:        Probes{},
		Fast:     cfg.Fast,
		Cache:    cfg.Cache,
	}
	return w
}

// Scratch returns a scratch directory root for file-backed backends.
func Scratch() string {
	if s := os.Getenv("VERIF_SCRATCH"); s != "" {
		return s
	}
	return os.TempDir()
}

func (w *World) makeBackend() error {
	be := w.Cfg.Backend
	if be == "" {
		be = "simdb"
	}
	base := strings.TrimPrefix(be, "prefix-")
	var db corestore.KVStoreWithBatch
	switch base {
	case "simdb":
		w.Sim = sim.NewSimDB()
		w.Sim.AcctLevelDB = w.Cfg.AcctLDB
		w.Sim.KeepSnaps = w.KeepSnaps
		db = w.Sim
	case "memdb":
		db = dbm.NewMemDB()
	case "leveldb":
		dir, err := os.MkdirTemp(Scratch(), "verif-ldb-")
		if err != nil {
			return err
		}
		w.ldbDir = dir
		l, err := dbm.NewGoLevelDB("t", dir)
		if err != nil {
			return err
		}
		w.ldb = l
		db = l
	default:
		return fmt.Errorf("unknown backend %q", be)
	}
	if strings.HasPrefix(be, "prefix-") {
		db = dbm.NewPrefixDB(db, []byte("p/\xff"))
	}
	w.DB = db
	return nil
}

// UseSim makes the world run on an existing simulated disk (crash images, twins).
func (w *World) UseSim(d *sim.SimDB) {
	w.Sim = d
	w.DB = d
}

// Cleanup releases file-backed resources.
func (w *World) Cleanup() {
	for v, e := range w.Pins {
		e.Close()
		delete(w.Pins, v)
	}
	if w.Tree != nil {
		_ = w.Tree.Close()
		w.Tree = nil
	}
	if w.ldb != nil {
		_ = w.ldb.Close()
		w.ldb = nil
	}
	if w.ldbDir != "" {
		_ = os.RemoveAll(w.ldbDir)
		w.ldbDir = ""
	}
}

func (w *World) options() []iavl.Option {
	opts := []iavl.Option{iavl.FlushThresholdOption(w.Cfg.Flush), iavl.SyncOption(w.Cfg.Sync)}
	if w.Cfg.InitVer > 0 && w.Cfg.InitMode != "set" {
		opts = append(opts, iavl.InitialVersionOption(uint64(w.Cfg.InitVer)))
	}
	if w.Cfg.AsyncPrune {
		opts = append(opts, iavl.AsyncPruningOption(true))
	}
	return opts
}

// NewHandle builds a fresh MutableTree on the world's disk (no load).
func (w *World) NewHandle(fast bool, cache int) *iavl.MutableTree {
	t := iavl.NewMutableTree(w.DB, cache, !fast, iavl.NewNopLogger(), w.options()...)
	if w.Cfg.InitVer > 0 && w.Cfg.InitMode == "set" && w.M.Latest == 0 {
		t.SetInitialVersion(uint64(w.Cfg.InitVer))
	}
	return t
}

// Open creates the backend (unless one was installed) and the first handle.
func (w *World) Open() error {
	if w.DB == nil {
		if err := w.makeBackend(); err != nil {
			return err
		}
	}
	if w.Cfg.InitVer > 0 {
		w.M.InitialVer = w.Cfg.InitVer
		w.T.InitialVer = w.Cfg.InitVer
	}
	w.Tree = w.NewHandle(w.Fast, w.Cache)
	_, err := w.Tree.Load()
	return err
}

func (w *World) viol(prop, oracle, symptom, class, detail string) *Violation {
	return &Violation{Prop: prop, Oracle: oracle, Symptom: symptom, Class: class, Detail: detail, StepID: w.curStep}
}

// panicSite extracts the innermost iavl frames from a panic stack.
func panicSite(stack []byte) string {
	lines := strings.Split(string(stack), "\n")
	var out []string
	for _, l := range lines {
		if strings.HasPrefix(l, "github.com/cosmos/iavl") {
			name := l
			if i := strings.LastIndex(name, "("); i > 0 {
				name = name[:i]
			}
			name = name[strings.LastIndex(name, "/")+1:]
			name = strings.TrimPrefix(name, "iavl.")
			name = strings.ReplaceAll(name, "(*", "")
			name = strings.ReplaceAll(name, ")", "")
			out = append(out, name)
			if len(out) == 3 {
				break
			}
		}
	}
	return strings.Join(out, "<")
}

// Guard runs f, converting a panic into a violation of prop.
func (w *World) Guard(prop, oracle, class string, f func() *Violation) (v *Violation) {
	defer func() {
		if r := recover(); r != nil {
			st := debug.Stack()
			v = w.viol(prop, oracle, "panic", class, fmt.Sprintf("panic: %v", r))
			v.Site = panicSite(st)
		}
	}()
	return f()
}

// ownerOf names the property that owns unexpected failures of an op.
func ownerOf(op string) string {
	switch op {
	case OpPrune, OpPin, OpUnpin:
		return "C04"
	case OpLVFO, OpDVF, OpDiscard:
		return "C09"
	case OpExpImp:
		return "C10"
	case OpSave, OpReopen, OpLoad, OpBadLoad, OpSetIV:
		return "C14"
	case OpChangeSt, OpImportCS:
		return "C15"
	default:
		return "C01"
	}
}

func (w *World) addKey(k []byte) {
	if len(k) > 0 {
		w.Universe[string(k)] = true
	}
}

// Apply executes one step on the real tree and on the models and checks the
// step's own results. It returns a violation or nil. A returned violation
// ends the run.
func (w *World) Apply(s Step) *Violation {
	w.curStep = s.ID
	if w.Sim != nil {
		w.Sim.BeginStep(s.ID)
	}
	owner := ownerOf(s.Op)
	return w.Guard(owner, owner+".step", s.Op, func() *Violation { return w.apply(s, owner) })
}

func (w *World) apply(s Step, owner string) *Violation {
	unexpected := func(err error) *Violation {
		return w.viol(owner, owner+".step", "error-on-legal-request", s.Op, fmt.Sprintf("%s: %v", s.String(), err))
	}
	switch s.Op {
	case OpSet:
		w.addKey(s.K)
		upd, err := w.Tree.Set(s.K, s.V)
		if err != nil {
			return unexpected(err)
		}
		want := w.M.Set(s.K, s.V)
		w.T.Set(s.K, s.V)
		if upd != want {
			return w.viol("C01", "C01.set-result", "wrong-value", "updated-flag", fmt.Sprintf("Set(%x) updated=%v want %v", []byte(s.K), upd, want))
		}
	case OpSetNil:
		w.addKey(s.K)
		_, err := w.Tree.Set(s.K, nil)
		if err == nil {
			return w.viol("C01", "C01.nil-value", "accepted", "setnil", fmt.Sprintf("Set(%x, nil) accepted", []byte(s.K)))
		}
	case OpRemove:
		w.addKey(s.K)
		val, rem, err := w.Tree.Remove(s.K)
		if err != nil {
			return unexpected(err)
		}
		wv, wr := w.M.Remove(s.K)
		w.T.Remove(s.K)
		if rem != wr || (wr && !bytes.Equal(val, wv)) || (!wr && val != nil) {
			return w.viol("C01", "C01.remove-result", "wrong-value", "removed", fmt.Sprintf("Remove(%x) = (%x,%v) want (%x,%v)", []byte(s.K), val, rem, wv, wr))
		}
	case OpSave:
		return w.applySave(s)
	case OpDiscard:
		w.Tree.Rollback()
		w.M.Discard()
		w.T.Discard()
	case OpReopen:
		return w.applyReopen(s)
	case OpLoad:
		return w.applyLoad(s)
	case OpPrune:
		return w.applyPrune(s)
	case OpLVFO:
		return w.applyLVFO(s)
	case OpDVF:
		return w.applyDVF(s)
	case OpSetIV:
		w.Tree.SetInitialVersion(uint64(s.N))
		if w.M.Latest == 0 {
			w.M.InitialVer = s.N
			w.T.InitialVer = s.N
		}
	default:
		if f, ok := extraOps[s.Op]; ok {
			return f(w, s)
		}
		panic("drv: unknown op " + s.Op)
	}
	return nil
}

// extraOps is filled by the files that implement the remaining ops.
var extraOps = map[string]func(w *World, s Step) *Violation{}

func (w *World) applySave(s Step) *Violation {
	nv := w.M.NextVersion()
	wantHash := w.T.WorkingHash()
	if w.M.Has(nv) {
		// Re-committing an existing version: succeeds without effect iff the
		// root hash is identical, otherwise fails leaving the store unchanged.
		same := bytes.Equal(wantHash, w.T.RootHash(nv))
		var before uint64
		if w.Sim != nil {
			before = w.Sim.Digest()
		}
		h, v, err := w.Tree.SaveVersion()
		w.P.Inc("save.recommit")
		if same {
			if err != nil {
				return w.viol("C14", "C14.recommit", "error-on-legal-request", "identical", fmt.Sprintf("re-commit of identical version %d failed: %v", nv, err))
			}
			if v != nv || !bytes.Equal(h, wantHash) {
				return w.viol("C14", "C14.recommit", "wrong-value", "identical", fmt.Sprintf("re-commit returned (%x,%d) want (%x,%d)", h, v, wantHash, nv))
			}
			w.M.Load(nv)
			w.T.Load(nv)
		} else {
			w.P.Inc("save.recommit.different")
			if err == nil {
				return w.viol("C14", "C14.recommit", "accepted", "different", fmt.Sprintf("re-commit of version %d with different contents succeeded", nv))
			}
		}
		if w.Sim != nil && w.Sim.Digest() != before {
			return w.viol("C14", "C14.recommit", "store-changed", "recommit", fmt.Sprintf("re-commit of existing version %d changed the store", nv))
		}
		w.Hashes = append(w.Hashes, CommitRec{Step: s.ID, Version: v, Hash: h, Err: err != nil})
		return nil
	}
	h, v, err := w.Tree.SaveVersion()
	if err != nil {
		return w.viol("C14", "C14.step", "error-on-legal-request", "save", fmt.Sprintf("SaveVersion: %v", err))
	}
	mv := w.M.Commit()
	tv, th := w.T.Commit()
	if mv != tv {
		panic("models disagree on version")
	}
	w.Hashes = append(w.Hashes, CommitRec{Step: s.ID, Version: v, Hash: h})
	if v != mv {
		return w.viol("C14", "C14.numbering", "wrong-value", "save", fmt.Sprintf("SaveVersion returned version %d want %d", v, mv))
	}
	if !bytes.Equal(h, th) {
		return w.viol("C02", "C02.commit-hash", "hash-mismatch", "save", fmt.Sprintf("SaveVersion(%d) hash %x want %x", v, h, th))
	}
	if len(wantHash) > 0 && !bytes.Equal(wantHash, th) {
		panic("R2 working hash differs from R2 commit hash")
	}
	return nil
}

func (w *World) closeHandle() {
	for v, e := range w.Pins {
		e.Close()
		delete(w.Pins, v)
	}
	if w.Tree != nil {
		_ = w.Tree.Close()
		w.Tree = nil
	}
	if w.ldb != nil {
		// clean restart of a file-backed backend: only durable state survives
		_ = w.ldb.Close()
		l, err := dbm.NewGoLevelDB("t", w.ldbDir)
		if err != nil {
			panic(fmt.Sprintf("leveldb reopen: %v", err))
		}
		w.ldb = l
		if strings.HasPrefix(w.Cfg.Backend, "prefix-") {
			w.DB = dbm.NewPrefixDB(l, []byte("p/\xff"))
		} else {
			w.DB = l
		}
	}
}

func (w *World) applyReopen(s Step) *Violation {
	w.closeHandle()
	if s.Fast != nil {
		w.Fast = *s.Fast
	}
	if s.Cache != nil {
		w.Cache = *s.Cache
	}
	w.Tree = w.NewHandle(w.Fast, w.Cache)
	target := s.N
	if target > 0 && !w.M.Has(target) {
		// loading a version outside the range must fail ...
		if _, err := w.Tree.LoadVersion(target); err == nil {
			return w.viol("C14", "C14.load", "accepted", "load-missing", fmt.Sprintf("LoadVersion(%d) succeeded but retained versions are %v", target, w.M.Versions()))
		}
		// ... and leave the tree usable: the fresh handle then loads the latest version
		target = 0
	}
	return w.loadInto(s, target)
}

func (w *World) applyLoad(s Step) *Violation {
	return w.loadInto(s, s.N)
}

func (w *World) loadInto(s Step, target int64) *Violation {
	lv, err := w.Tree.LoadVersion(target)
	if w.M.Latest == 0 {
		if target > 0 {
			if err == nil {
				return w.viol("C14", "C14.load", "accepted", "load-empty", fmt.Sprintf("LoadVersion(%d) on an empty store succeeded", target))
			}
			return nil
		}
		if err != nil || lv != 0 {
			return w.viol("C14", "C14.load", "error-on-legal-request", "load-empty", fmt.Sprintf("Load on an empty store = (%d,%v)", lv, err))
		}
		w.M.Load(0)
		w.T.Load(0)
		return nil
	}
	want := target
	if want <= 0 {
		want = w.M.Latest
	}
	if !w.M.Has(want) {
		if err == nil {
			return w.viol("C14", "C14.load", "accepted", "load-missing", fmt.Sprintf("LoadVersion(%d) succeeded but retained versions are %v", target, w.M.Versions()))
		}
		return nil
	}
	if err != nil {
		return w.viol("C14", "C14.load", "load-fails", "load", fmt.Sprintf("LoadVersion(%d): %v (retained %v)", target, err, w.M.Versions()))
	}
	if lv != w.M.Latest {
		return w.viol("C14", "C14.load", "wrong-value", "load", fmt.Sprintf("LoadVersion(%d) reported latest %d want %d", target, lv, w.M.Latest))
	}
	w.M.Load(want)
	w.T.Load(want)
	return nil
}

func (w *World) applyPrune(s Step) *Violation {
	n := s.N
	if w.M.Cur < w.M.Latest && n >= w.M.Cur && n < w.M.Latest {
		// the request would delete the version this handle's working tree is
		// based on: outside the statement (and never generated; reachable only
		// in minimised plans), skipped
		return nil
	}
	var before uint64
	if w.Sim != nil {
		before = w.Sim.Digest()
	}
	err := w.Tree.DeleteVersionsTo(n)
	pinned := false
	for v := range w.Pins {
		if v <= n && v >= w.M.First {
			pinned = true
		}
	}
	switch {
	case n >= w.M.Latest || pinned:
		cls := "latest"
		if pinned && n < w.M.Latest {
			cls = "pinned"
		}
		w.P.Inc("prune.rejected." + cls)
		if !w.Cfg.AsyncPrune && err == nil {
			return w.viol("C04", "C04.reject", "accepted", cls, fmt.Sprintf("DeleteVersionsTo(%d) accepted (latest %d, pinned %v)", n, w.M.Latest, pinned))
		}
		if w.Sim != nil && !w.Cfg.AsyncPrune && w.Sim.Digest() != before {
			return w.viol("C04", "C04.reject", "store-changed", cls, fmt.Sprintf("rejected DeleteVersionsTo(%d) changed the store", n))
		}
		return nil
	case err != nil:
		v := w.viol("C04", "C04.step", "error-on-legal-request", w.pruneClass(s), fmt.Sprintf("DeleteVersionsTo(%d): %v (retained %v)", n, err, w.M.Versions()))
		return v
	}
	if n < w.M.First {
		w.P.Inc("prune.below-first")
		if w.Sim != nil && w.Sim.Digest() != before {
			return w.viol("C04", "C04.noop", "store-changed", "below-first", fmt.Sprintf("DeleteVersionsTo(%d) below first version %d changed the store", n, w.M.First))
		}
		return nil
	}
	if w.Sim != nil {
		if c := w.Sim.Counts()[sim.KBWrite]; c > 1 {
			w.P.Inc("prune.multi-batch")
		}
	}
	if n-w.M.First >= 1 {
		w.P.Inc("prune.multi-version")
	}
	w.M.PruneTo(n)
	w.T.PruneTo(n)
	return nil
}

// pruneClass is the structural context of a prune step (C04 signatures).
func (w *World) pruneClass(s Step) string {
	writes := 0
	if w.Sim != nil {
		writes = w.Sim.Counts()[sim.KBWrite]
	}
	multi := "single-batch"
	if writes > 1 {
		multi = "multi-batch"
	}
	ref := "no-refroot"
	for v := w.M.First; v <= s.N+1 && v <= w.M.Latest; v++ {
		if v > w.M.First && w.T.Roots[v] == w.T.Roots[v-1] {
			ref = "refroot"
		}
	}
	return "prune/" + multi + "/" + ref
}

func (w *World) applyLVFO(s Step) *Violation {
	var before uint64
	if w.Sim != nil {
		before = w.Sim.Digest()
	}
	err := w.Tree.LoadVersionForOverwriting(s.N)
	for v := range w.Pins {
		if v > s.N && w.M.Has(s.N) {
			// a version that would be erased is held by an open export: the
			// rollback must be refused and erase nothing; the handle has been
			// moved to the target version by the load that precedes the deletion
			w.P.Inc("rollback.refused-pinned")
			if err == nil {
				return w.viol("C09", "C09.step", "accepted", "lvfo-pinned", fmt.Sprintf("LoadVersionForOverwriting(%d) succeeded while an Exporter is open on version %d", s.N, v))
			}
			if w.Sim != nil && w.Sim.Digest() != before {
				return w.viol("C09", "C09.step", "store-changed", "lvfo-pinned", fmt.Sprintf("refused LoadVersionForOverwriting(%d) changed the store", s.N))
			}
			w.M.Load(s.N)
			w.T.Load(s.N)
			return nil
		}
	}
	if !w.M.Has(s.N) {
		if err == nil {
			return w.viol("C09", "C09.step", "accepted", "lvfo-missing", fmt.Sprintf("LoadVersionForOverwriting(%d) succeeded, retained %v", s.N, w.M.Versions()))
		}
		return nil
	}
	if err != nil {
		return w.viol("C09", "C09.step", "error-on-legal-request", "lvfo", fmt.Sprintf("LoadVersionForOverwriting(%d): %v", s.N, err))
	}
	if s.N < w.M.Latest {
		w.P.Inc("rollback.to-older")
	}
	w.M.RollbackTo(s.N)
	w.T.RollbackTo(s.N)
	return nil
}

func (w *World) applyDVF(s Step) *Violation {
	if !w.M.Has(s.N) {
		return nil
	}
	if err := w.Tree.DeleteVersionsFrom(s.N + 1); err != nil {
		return w.viol("C09", "C09.step", "error-on-legal-request", "dvf", fmt.Sprintf("DeleteVersionsFrom(%d): %v", s.N+1, err))
	}
	w.M.RollbackTo(s.N)
	w.T.RollbackTo(s.N)
	w.closeHandle()
	w.Tree = w.NewHandle(w.Fast, w.Cache)
	lv, err := w.Tree.LoadVersion(s.N)
	if err != nil || lv != s.N {
		return w.viol("C09", "C09.step", "load-fails", "dvf", fmt.Sprintf("LoadVersion(%d) after DeleteVersionsFrom = (%d,%v)", s.N, lv, err))
	}
	return nil
}

// Clean reports whether the handle is at the latest version without
// uncommitted changes and without open exporters (a restart loses nothing).
func (w *World) Clean() bool {
	if w.M.Cur != w.M.Latest || len(w.Pins) > 0 {
		return false
	}
	if w.M.Latest == 0 {
		return w.M.Working.Len() == 0
	}
	return w.T.Work == w.T.Roots[w.M.Latest]
}

// Restart performs a clean restart: the handle is dropped and a fresh one is
// opened on the same disk at the latest version. Only legal when Clean().
func (w *World) Restart(fast bool, cache int) *Violation {
	w.closeHandle()
	w.Fast, w.Cache = fast, cache
	w.Tree = w.NewHandle(fast, cache)
	lv, err := w.Tree.Load()
	if err != nil || lv != w.M.Latest {
		return w.viol("C14", "C14.load", "load-fails", "restart", fmt.Sprintf("Load() after clean restart = (%d,%v) want %d", lv, err, w.M.Latest))
	}
	w.M.Load(w.M.Latest)
	w.T.Load(w.M.Latest)
	return nil
}

// WithHandle runs f with h installed as the world's tree (read-only audits on
// a second handle), then restores the main handle.
func (w *World) WithHandle(h *iavl.MutableTree, f func() *Violation) *Violation {
	old := w.Tree
	w.Tree = h
	defer func() { w.Tree = old }()
	return f()
}

// ProbeKeys returns the key universe plus absent neighbours, sorted.
func (w *World) ProbeKeys() [][]byte {
	set := map[string]bool{"\x00": true, "\xff\xff\xff": true}
	for k := range w.Universe {
		set[k] = true
		set[k+"\x00"] = true
		if len(k) > 1 {
			set[k[:len(k)-1]] = true
		}
		// immediate predecessor-ish: last byte minus one followed by 0xff
		b := []byte(k)
		if b[len(b)-1] > 0 {
			p := append([]byte{}, b...)
			p[len(p)-1]--
			set[string(p)+"\xff"] = true
		}
	}
	out := make([][]byte, 0, len(set))
	for k := range set {
		out = append(out, []byte(k))
	}
	sort.Slice(out, func(i, j int) bool { return bytes.Compare(out[i], out[j]) < 0 })
	return out
}
