package drv

import (
	"bytes"
	"fmt"
	"sort"

	"github.com/cosmos/iavl"

	"verif/ref"
	"verif/sim"
)

func init() {
	extraOps[OpChangeSt] = (*World).applySaveCS
	extraOps[OpImportCS] = (*World).applyReplayCS
}

// applySaveCS commits the next version through SaveChangeSet.
func (w *World) applySaveCS(s Step) *Violation {
	// only defined on a clean handle at the latest version (the statement
	// does not cover change sets on top of uncommitted changes)
	if w.M.Cur != w.M.Latest || w.T.Work != w.T.Roots[w.M.Latest] && w.M.Latest > 0 || (w.M.Latest == 0 && w.T.Work != nil) {
		return nil
	}
	cs := &iavl.ChangeSet{}
	for _, p := range s.CS {
		w.addKey(p.K)
		kv := &iavl.KVPair{Delete: p.Del, Key: p.K}
		if !p.Del {
			kv.Value = p.V
		}
		cs.Pairs = append(cs.Pairs, kv)
	}
	v, err := w.Tree.SaveChangeSet(cs)
	// model: pairs are applied in order; the removal of a missing key rejects the set
	reject := false
	for _, p := range s.CS {
		if p.Del {
			if _, ok := w.M.Remove(p.K); !ok {
				reject = true
				break
			}
			w.T.Remove(p.K)
		} else {
			w.M.Set(p.K, p.V)
			w.T.Set(p.K, p.V)
		}
	}
	if reject {
		w.P.Inc("savecs.rejected")
		if err == nil {
			return w.viol("C15", "C15.savechangeset", "accepted", "remove-missing", fmt.Sprintf("SaveChangeSet removing a missing key succeeded (version %d)", v))
		}
		return nil
	}
	if err != nil {
		return w.viol("C15", "C15.savechangeset", "error-on-legal-request", "savecs", fmt.Sprintf("SaveChangeSet: %v", err))
	}
	mv := w.M.Commit()
	_, th := w.T.Commit()
	w.P.Inc("savecs.applied")
	if v != mv {
		return w.viol("C15", "C15.savechangeset", "wrong-value", "savecs", fmt.Sprintf("SaveChangeSet returned version %d want %d", v, mv))
	}
	if h := w.Tree.Hash(); !bytes.Equal(h, th) {
		return w.viol("C15", "C15.savechangeset", "hash-mismatch", "savecs", fmt.Sprintf("SaveChangeSet(%d) hash %x want %x", v, h, th))
	}
	w.Hashes = append(w.Hashes, CommitRec{Step: s.ID, Version: v, Hash: w.Tree.Hash()})
	return nil
}

// NormalFormCS is R1's change set of version v relative to v-1.
func (w *World) NormalFormCS(v int64) []CSPair {
	cur, prev := w.M.Committed[v], w.M.Committed[v-1]
	set := map[string]bool{}
	for k := range w.M.Written[v] {
		if _, ok := cur.Get([]byte(k)); ok {
			set[k] = true
		}
	}
	del := map[string]bool{}
	for _, k := range prev.Keys() {
		if _, ok := cur.Get([]byte(k)); !ok {
			del[k] = true
		}
	}
	// keys present in v but absent in v-1 must have been written in v
	for _, k := range cur.Keys() {
		if _, ok := prev.Get([]byte(k)); !ok && !set[k] {
			panic(fmt.Sprintf("model: key %x appears in version %d without a recorded write", k, v))
		}
	}
	keys := make([]string, 0, len(set)+len(del))
	for k := range set {
		keys = append(keys, k)
	}
	for k := range del {
		keys = append(keys, k)
	}
	sort.Strings(keys)
	out := make([]CSPair, 0, len(keys))
	for _, k := range keys {
		if del[k] {
			out = append(out, CSPair{Del: true, K: []byte(k)})
		} else {
			val, _ := cur.Get([]byte(k))
			out = append(out, CSPair{K: []byte(k), V: val})
		}
	}
	return out
}

func fmtCS(cs []CSPair) string {
	s := "["
	for i, p := range cs {
		if i > 0 {
			s += " "
		}
		if i >= 10 {
			s += "..."
			break
		}
		if p.Del {
			s += fmt.Sprintf("del %x", []byte(p.K))
		} else {
			s += fmt.Sprintf("%x=%x", []byte(p.K), []byte(p.V))
		}
	}
	return s + "]"
}

func sameCS(a, b []CSPair) bool {
	if len(a) != len(b) {
		return false
	}
	for i := range a {
		if a[i].Del != b[i].Del || !bytes.Equal(a[i].K, b[i].K) || (!a[i].Del && !bytes.Equal(a[i].V, b[i].V)) {
			return false
		}
	}
	return true
}

// extract runs TraverseStateChanges(a,b) and returns the change sets by version.
func (w *World) extract(a, b int64) (order []int64, sets map[int64][]CSPair, err error) {
	sets = map[int64][]CSPair{}
	err = w.Tree.TraverseStateChanges(a, b, func(version int64, cs *iavl.ChangeSet) error {
		order = append(order, version)
		var ps []CSPair
		for _, p := range cs.Pairs {
			c := CSPair{Del: p.Delete, K: append([]byte{}, p.Key...)}
			if !p.Delete {
				c.V = append([]byte{}, p.Value...)
			}
			ps = append(ps, c)
		}
		sets[version] = ps
		return nil
	})
	return order, sets, err
}

// AuditChangeSets checks TraverseStateChanges for boundary and seeded ranges (C15).
func (w *World) AuditChangeSets(r *sim.Rand, st map[string]int) *Violation {
	if w.M.Latest == 0 {
		return nil
	}
	first, latest := w.M.First, w.M.Latest
	type rg struct{ a, b int64 }
	ranges := []rg{{0, latest + 1}, {first, latest}, {first + 1, latest + 1}, {latest, latest + 1}, {0, 1 << 62}}
	for i := 0; i < 3; i++ {
		a := first + int64(r.Intn(int(latest-first+1)))
		b := a + int64(r.Intn(int(latest-a+2)))
		ranges = append(ranges, rg{a, b})
	}
	for _, g := range ranges {
		order, sets, err := w.extract(g.a, g.b)
		if err != nil {
			return w.viol("C15", "C15.extract", "error-on-legal-request", "range", fmt.Sprintf("TraverseStateChanges(%d,%d): %v (retained %v)", g.a, g.b, err, w.M.Versions()))
		}
		lo := g.a
		if lo < first {
			lo = first
		}
		hi := g.b // accepted both as inclusive and exclusive end (the documentation says exclusive, the implementation includes it)
		if hi > latest {
			hi = latest
		}
		for i, v := range order {
			if v != lo+int64(i) || v > hi {
				return w.viol("C15", "C15.extract", "wrong-versions", "range", fmt.Sprintf("TraverseStateChanges(%d,%d) reported versions %v (retained %d..%d)", g.a, g.b, order, first, latest))
			}
		}
		if int64(len(order)) < hi-lo { // at least [lo, hi)
			return w.viol("C15", "C15.extract", "wrong-versions", "range", fmt.Sprintf("TraverseStateChanges(%d,%d) reported versions %v, want at least %d..%d", g.a, g.b, order, lo, hi-1))
		}
		for _, v := range order {
			if !w.M.Has(v - 1) {
				continue // the statement covers versions whose predecessor is retained
			}
			want := w.NormalFormCS(v)
			st["changesets_compared"]++
			if len(want) > 0 {
				st["nonempty_changesets"]++
			}
			if !sameCS(sets[v], want) {
				return w.viol("C15", "C15.extract", "wrong-changeset", "normal-form", fmt.Sprintf("change set of version %d = %s want %s", v, fmtCS(sets[v]), fmtCS(want)))
			}
			// applying it to R1(v-1) gives R1(v)
			m := w.M.Committed[v-1].Clone()
			for _, p := range sets[v] {
				if p.Del {
					m.Delete(p.K)
				} else {
					m.Set(p.K, p.V)
				}
			}
			if !m.Equal(w.M.Committed[v]) {
				panic("model: normal-form change set does not transform v-1 into v")
			}
		}
	}
	return nil
}

// applyReplayCS extracts every version's change set and replays them into an
// empty tree on a fresh disk; contents must be reproduced for every version and
// the hashes too when hashes is requested by the plan (normal-form runs).
func (w *World) applyReplayCS(s Step) *Violation {
	if w.M.Latest == 0 || w.Sim == nil || !w.Clean() || w.Imported {
		return nil
	}
	// only when nothing was pruned: the first retained version must be the first ever committed
	start := int64(1)
	if w.M.InitialVer > 0 {
		start = w.M.InitialVer
	}
	if w.M.First != start {
		return nil
	}
	order, sets, err := w.extract(0, w.M.Latest+1)
	if err != nil {
		return w.viol("C15", "C15.replay", "error-on-legal-request", "extract", fmt.Sprintf("TraverseStateChanges: %v", err))
	}
	if len(order) == 0 || order[0] != start || order[len(order)-1] != w.M.Latest {
		return w.viol("C15", "C15.replay", "wrong-versions", "extract", fmt.Sprintf("extracted versions %v want %d..%d", order, start, w.M.Latest))
	}
	nd := sim.NewSimDB()
	old := w.DB
	w.DB = nd
	nt := w.NewHandle(w.Fast, w.Cache)
	w.DB = old
	defer nt.Close()
	if _, err := nt.Load(); err != nil {
		return w.viol("C15", "C15.replay", "error-on-legal-request", "load", err.Error())
	}
	if w.M.InitialVer > 0 {
		nt.SetInitialVersion(uint64(w.M.InitialVer))
	}
	normal := s.N == 1 // the generator marks runs whose writes were issued in normal form
	for _, v := range order {
		cs := &iavl.ChangeSet{}
		for _, p := range sets[v] {
			kv := &iavl.KVPair{Delete: p.Del, Key: p.K}
			if !p.Del {
				kv.Value = p.V
			}
			cs.Pairs = append(cs.Pairs, kv)
		}
		got, err := nt.SaveChangeSet(cs)
		if err != nil || got != v {
			return w.viol("C15", "C15.replay", "error-on-legal-request", "replay", fmt.Sprintf("replaying change set of version %d: (%d,%v)", v, got, err))
		}
		it, err := nt.GetImmutable(v)
		if err != nil {
			return w.viol("C15", "C15.replay", "version-unreadable", "replay", err.Error())
		}
		var pairs []ref.Pair
		_, _ = it.Iterate(func(k, val []byte) bool {
			pairs = append(pairs, ref.Pair{K: append([]byte{}, k...), V: append([]byte{}, val...)})
			return false
		})
		if d := diffPairs(pairs, w.M.Committed[v].Pairs()); d != "" {
			return w.viol("C15", "C15.replay", "wrong-contents", "replay", fmt.Sprintf("replayed version %d: %s", v, d))
		}
		if normal && !bytes.Equal(it.Hash(), w.T.RootHash(v)) {
			return w.viol("C15", "C15.replay", "hash-mismatch", "replay-normal-form", fmt.Sprintf("replayed version %d has hash %x, original %x", v, it.Hash(), w.T.RootHash(v)))
		}
	}
	w.P.Inc("replaycs.done")
	if normal {
		w.P.Inc("replaycs.hashes-compared")
	}
	return nil
}
