package drv

import (
	"fmt"
	"hash/fnv"
	"sort"

	"verif/sim"
)

// Hooks customise a lock-step run.
type Hooks struct {
	// Prop is the property being checked; a violation owned by another
	// property stops the run and is reported as foreign.
	Prop string
	// After runs after every successfully applied step.
	After func(w *World, s Step) *Violation
	// Before runs before every step (fault arming, corruption).
	Before func(w *World, s Step)
	// End runs after the last step.
	End func(w *World) *Violation
	// Prepare runs after the world is opened.
	Prepare func(w *World)
}

// Result of a lock-step run.
type Result struct {
	W       *World
	Vio     *Violation // owned by Hooks.Prop
	Foreign *Violation
	Steps   int
	Trace   uint64
	// States are digests of the distinct (durable storage contents, retained
	// version range, handle configuration) triples reached after structural steps.
	States []string
}

// Tracer accumulates the event log digest used by the determinism self-test.
type Tracer struct{ h uint64 }

func (t *Tracer) Add(parts ...interface{}) {
	h := fnv.New64a()
	fmt.Fprint(h, t.h)
	for _, p := range parts {
		fmt.Fprint(h, "|", p)
	}
	t.h = h.Sum64()
}

// Sum returns the digest.
func (t *Tracer) Sum() uint64 { return t.h }

func countsString(m map[string]int) string {
	keys := make([]string, 0, len(m))
	for k := range m {
		keys = append(keys, k)
	}
	sort.Strings(keys)
	s := ""
	for _, k := range keys {
		s += fmt.Sprintf("%s=%d,", k, m[k])
	}
	return s
}

// RunPlan executes the plan's steps on a fresh world with configuration cfg.
func RunPlan(p *Plan, cfg Config, h Hooks) *Result {
	w := NewWorld(cfg)
	return RunOn(w, p.Steps, h)
}

// RunOn executes steps on a world that has not been opened yet.
func RunOn(w *World, steps []Step, h Hooks) *Result {
	res := &Result{W: w}
	var tr Tracer
	classify := func(v *Violation) bool {
		if v == nil {
			return false
		}
		if v.Prop == h.Prop || h.Prop == "" {
			res.Vio = v
		} else {
			res.Foreign = v
		}
		return true
	}
	if w.Tree == nil {
		if err := w.Open(); err != nil {
			classify(w.viol("C14", "C14.load", "load-fails", "open", fmt.Sprintf("first open: %v", err)))
			return res
		}
	}
	if h.Prepare != nil {
		h.Prepare(w)
	}
	for _, s := range steps {
		if h.Before != nil {
			h.Before(w, s)
		}
		v := w.Apply(s)
		res.Steps++
		if w.Sim != nil && !w.FreeHelpers {
			tr.Add(s.ID, s.Op, countsString(w.Sim.Counts()), w.Sim.LogLen())
		} else {
			tr.Add(s.ID, s.Op)
		}
		if classify(v) {
			tr.Add("vio", v.Sig())
			res.Trace = tr.Sum()
			return res
		}
		if h.After != nil {
			if classify(w.Guard(h.Prop, h.Prop+".oracle", "after-step", func() *Violation { return h.After(w, s) })) {
				tr.Add("vio-after", res.Steps)
				res.Trace = tr.Sum()
				return res
			}
		}
		tr.Add(w.M.Latest, w.M.First, w.M.Cur, w.M.Working.Len())
		if w.Sim != nil && len(res.States) < 64 {
			switch s.Op {
			case OpSave, OpPrune, OpLVFO, OpDVF, OpReopen, OpLoad, OpExpImp, OpDiscard, OpChangeSt:
				var st Tracer
				st.Add(w.Sim.Digest(), w.M.First, w.M.Latest, w.M.Cur, w.Fast, w.Cache)
				res.States = append(res.States, fmt.Sprintf("%016x", st.Sum()))
			}
		}
	}
	if h.End != nil {
		classify(w.Guard(h.Prop, h.Prop+".oracle", "end", func() *Violation { return h.End(w) }))
	}
	if w.Sim != nil {
		tr.Add(w.Sim.Digest())
		if !w.FreeHelpers {
			tr.Add(countsString(w.Sim.Totals()))
		}
	}
	res.Trace = tr.Sum()
	return res
}

// SubRand returns the sub-stream of the plan seed for a step.
func SubRand(p *Plan, labels ...interface{}) *sim.Rand {
	l := append([]interface{}{p.Run}, labels...)
	return sim.Sub(p.Seed, l...)
}
