package drv

import (
	"bytes"
	"fmt"
	"sort"

	"verif/ref"
)

// StoreScan is the decoded raw content of the simulated disk.
type StoreScan struct {
	Nodes   map[string]*StoredNode // by storage key
	Roots   map[int64]string       // version -> kind of root marker found under (v,1): node|ref|empty
	Fast    map[string][]byte      // fast index: key -> raw value
	Label   []byte
	HasLbl  bool
	Legacy  int // entries in n/o/r spaces
	Other   int // entries in unknown spaces
	Entries int
}

// StoredNode is one decoded s-entry that is a node.
type StoredNode struct {
	Ver   int64
	Nonce uint32
	D     *ref.DNode
	Hash  []byte
	Raw   []byte
}

// leafHash computes the hash of a stored leaf (not stored in the body).
func leafHash(d *ref.DNode, ver int64) []byte {
	dd := *d
	dd.Version = ver
	return ref.LegacyHash(&dd) // same preimage as the current format
}

// ScanStore decodes the whole disk with R3.
func (w *World) ScanStore(prop string) (*StoreScan, *Violation) {
	sc := &StoreScan{Nodes: map[string]*StoredNode{}, Roots: map[int64]string{}, Fast: map[string][]byte{}}
	for _, e := range w.Sim.Dump() {
		sc.Entries++
		k, v := e.K, e.V
		switch k[0] {
		case 's':
			ver, nonce, ok := ref.ParseSKey(k)
			if !ok {
				return nil, w.viol(prop, prop+".format", "undecodable", "s-key", fmt.Sprintf("malformed node key %x", k))
			}
			kind, rv, rn := ref.ClassifyS(v)
			switch kind {
			case ref.SEmptyRoot:
				if nonce != 1 {
					return nil, w.viol(prop, prop+".format", "undecodable", "empty-root", fmt.Sprintf("empty marker under non-root key %x", k))
				}
				sc.Roots[ver] = "empty"
			case ref.SRefRoot, ref.SRefRootOld:
				if nonce != 1 {
					return nil, w.viol(prop, prop+".format", "undecodable", "ref-root", fmt.Sprintf("reference root under non-root key %x", k))
				}
				sc.Roots[ver] = fmt.Sprintf("ref:%d:%d", rv, rn)
			default:
				d, err := ref.DecodeNode(v)
				if err != nil {
					return nil, w.viol(prop, prop+".format", "undecodable", "node", fmt.Sprintf("node %x=%x: %v", k, v, err))
				}
				sn := &StoredNode{Ver: ver, Nonce: nonce, D: d, Raw: v}
				if d.Height == 0 {
					sn.Hash = leafHash(d, ver)
				} else {
					sn.Hash = d.Hash
				}
				sc.Nodes[string(k)] = sn
				if nonce == 1 {
					sc.Roots[ver] = "node"
				}
			}
		case 'f':
			sc.Fast[string(k[1:])] = v
		case 'm':
			if bytes.Equal(k, ref.StorageVersionKey) {
				sc.Label, sc.HasLbl = v, true
			} else {
				sc.Other++
			}
		case 'n', 'o', 'r':
			sc.Legacy++
		default:
			sc.Other++
		}
	}
	return sc, nil
}

// lookupChild resolves a child reference the way the format prescribes:
// (v,1) may have been re-keyed to (v,0).
func (sc *StoreScan) lookupChild(ver int64, nonce uint32) *StoredNode {
	if n, ok := sc.Nodes[string(ref.SKey(ver, nonce))]; ok {
		return n
	}
	if nonce == 1 {
		if n, ok := sc.Nodes[string(ref.SKey(ver, 0))]; ok {
			return n
		}
	}
	return nil
}

// AuditStore checks that the disk holds exactly the nodes reachable from the
// retained versions (C12) and, when format is set, that every stored node
// decodes to exactly the reference node and re-encodes byte for byte (C13a).
// imported tells that node keys were re-assigned by an import.
func (w *World) AuditStore(prop string, format bool, imported bool) *Violation {
	if w.Sim == nil {
		return nil
	}
	sc, v := w.ScanStore(prop)
	if v != nil {
		return v
	}
	cls := "store"
	reach := map[ref.NodeID]*ref.TNode{}
	for _, ver := range w.M.Versions() {
		ref.Reachable(w.T.Roots[ver], reach)
	}
	stored := map[ref.NodeID]*StoredNode{}
	keys := make([]string, 0, len(sc.Nodes))
	for k := range sc.Nodes {
		keys = append(keys, k)
	}
	sort.Strings(keys)
	for _, k := range keys {
		sn := sc.Nodes[k]
		id := ref.NodeID{Ver: sn.Ver, Hash: string(sn.Hash)}
		if _, dup := stored[id]; dup {
			return w.viol(prop, prop+".conservation", "duplicate-node", cls, fmt.Sprintf("node (ver %d, hash %x) stored twice (second key %x)", sn.Ver, sn.Hash, []byte(k)))
		}
		stored[id] = sn
		if _, ok := reach[id]; !ok {
			return w.viol(prop, prop+".conservation", "leak", cls, fmt.Sprintf("stored node %x (ver %d nonce %d key %x) is not reachable from any retained version %v", []byte(k), sn.Ver, sn.Nonce, sn.D.Key, w.M.Versions()))
		}
		if sn.Nonce == 0 {
			if _, both := sc.Nodes[string(ref.SKey(sn.Ver, 1))]; both {
				return w.viol(prop, prop+".conservation", "duplicate-root", cls, fmt.Sprintf("(%d,0) and (%d,1) coexist", sn.Ver, sn.Ver))
			}
			if _, both := sc.Roots[sn.Ver]; both {
				return w.viol(prop, prop+".conservation", "duplicate-root", cls, fmt.Sprintf("(%d,0) coexists with a root marker of version %d", sn.Ver, sn.Ver))
			}
		}
	}
	ids := make([]ref.NodeID, 0, len(reach))
	for id := range reach {
		ids = append(ids, id)
	}
	sort.Slice(ids, func(i, j int) bool {
		if ids[i].Ver != ids[j].Ver {
			return ids[i].Ver < ids[j].Ver
		}
		return ids[i].Hash < ids[j].Hash
	})
	for _, id := range ids {
		tn := reach[id]
		sn, ok := stored[id]
		if !ok {
			return w.viol(prop, prop+".conservation", "missing-node", cls, fmt.Sprintf("node (ver %d key %x height %d) needed by a retained version is not stored", id.Ver, tn.Key, tn.H))
		}
		d := sn.D
		if d.Height != tn.H || d.Size != tn.N || !bytes.Equal(d.Key, tn.Key) || (tn.IsLeaf() && !bytes.Equal(d.Value, tn.Value)) {
			return w.viol(prop, prop+".format", "field-mismatch", cls, fmt.Sprintf("stored node (ver %d) decodes to key=%x h=%d n=%d val=%x want key=%x h=%d n=%d val=%x", id.Ver, d.Key, d.Height, d.Size, d.Value, tn.Key, tn.H, tn.N, tn.Value))
		}
		if !tn.IsLeaf() {
			if d.Mode != 0 {
				return w.viol(prop, prop+".format", "field-mismatch", cls, fmt.Sprintf("stored node (ver %d key %x) has legacy mode %d in a non-legacy database", id.Ver, d.Key, d.Mode))
			}
			l := sc.lookupChild(d.LVer, d.LNonce)
			r := sc.lookupChild(d.RVer, d.RNonce)
			if l == nil || r == nil {
				return w.viol(prop, prop+".conservation", "dangling-child", cls, fmt.Sprintf("node (ver %d key %x) refers to children (%d,%d)/(%d,%d) of which one is not stored", id.Ver, d.Key, d.LVer, d.LNonce, d.RVer, d.RNonce))
			}
			if !bytes.Equal(l.Hash, tn.Left.Hash) || !bytes.Equal(r.Hash, tn.Right.Hash) || l.Ver != tn.Left.Ver || r.Ver != tn.Right.Ver {
				return w.viol(prop, prop+".conservation", "wrong-child", cls, fmt.Sprintf("node (ver %d key %x): stored child links resolve to the wrong nodes", id.Ver, d.Key))
			}
			if format && !imported {
				wantL, wantR := tn.Left.Nonce, tn.Right.Nonce
				// (v,0) is the re-keyed form of the root (v,1) of a deleted version:
				// a link written after the re-keying may name it directly
				okN := func(got, want uint32) bool { return got == want || (got == 0 && want == 1) }
				if !okN(d.LNonce, wantL) || !okN(d.RNonce, wantR) {
					return w.viol(prop, prop+".format", "field-mismatch", cls, fmt.Sprintf("node (ver %d key %x): child nonces (%d,%d) want pre-order numbers (%d,%d)", id.Ver, d.Key, d.LNonce, d.RNonce, wantL, wantR))
				}
			}
		}
		if format {
			if !imported && sn.Nonce != tn.Nonce && !(sn.Nonce == 0 && tn.Nonce == 1) {
				return w.viol(prop, prop+".format", "field-mismatch", cls, fmt.Sprintf("node (ver %d key %x) stored under nonce %d want %d", id.Ver, d.Key, sn.Nonce, tn.Nonce))
			}
			if enc := ref.EncodeNode(d); !bytes.Equal(enc, sn.Raw) {
				return w.viol(prop, prop+".format", "not-canonical", cls, fmt.Sprintf("node (ver %d key %x): independent encoder gives %x, stored %x", id.Ver, d.Key, enc, sn.Raw))
			}
		}
	}
	// root markers: exactly one per retained version, none for deleted versions
	for _, ver := range w.M.Versions() {
		kind, ok := sc.Roots[ver]
		root := w.T.Roots[ver]
		if !ok {
			return w.viol(prop, prop+".roots", "missing-root", cls, fmt.Sprintf("retained version %d has no root entry", ver))
		}
		switch {
		case root == nil:
			if kind != "empty" {
				return w.viol(prop, prop+".roots", "wrong-root", cls, fmt.Sprintf("version %d is empty but its root entry is %s", ver, kind))
			}
		case root.Ver == ver:
			if kind != "node" {
				return w.viol(prop, prop+".roots", "wrong-root", cls, fmt.Sprintf("version %d has a new root but its root entry is %s", ver, kind))
			}
			if sn := sc.Nodes[string(ref.SKey(ver, 1))]; !bytes.Equal(sn.Hash, root.Hash) {
				return w.viol(prop, prop+".roots", "wrong-root", cls, fmt.Sprintf("root node of version %d has the wrong hash", ver))
			}
		default:
			var rv int64
			var rn uint32
			if n, _ := fmt.Sscanf(kind, "ref:%d:%d", &rv, &rn); n != 2 {
				return w.viol(prop, prop+".roots", "wrong-root", cls, fmt.Sprintf("version %d shares its root with version %d but its root entry is %s", ver, root.Ver, kind))
			}
			tgt := sc.lookupChild(rv, rn)
			if tgt == nil || !bytes.Equal(tgt.Hash, root.Hash) || tgt.Ver != root.Ver {
				return w.viol(prop, prop+".roots", "wrong-root", cls, fmt.Sprintf("reference root of version %d (%s) does not resolve to the root of version %d", ver, kind, root.Ver))
			}
		}
	}
	for ver, kind := range sc.Roots {
		if w.M.Has(ver) {
			continue
		}
		if kind == "node" {
			// a node keyed (v,1) of a deleted version may survive only because a
			// retained version still uses it (checked above by reachability)
			continue
		}
		return w.viol(prop, prop+".roots", "leak", cls, fmt.Sprintf("root marker (%s) of deleted version %d left behind (retained %v)", kind, ver, w.M.Versions()))
	}
	if sc.Legacy != 0 {
		return w.viol(prop, prop+".conservation", "leak", cls, fmt.Sprintf("%d entries in legacy key spaces of a non-legacy database", sc.Legacy))
	}
	if sc.Other != 0 {
		return w.viol(prop, prop+".conservation", "leak", cls, fmt.Sprintf("%d entries in unknown key spaces", sc.Other))
	}
	return nil
}

// AuditFastIndex checks the persisted fast index against R1's latest version
// (C07, also part of C12). It must only be called when the current handle was
// opened with the index enabled.
func (w *World) AuditFastIndex(prop string) *Violation {
	if w.Sim == nil {
		return nil
	}
	sc, v := w.ScanStore(prop)
	if v != nil {
		return v
	}
	cls := "fast-index"
	if !sc.HasLbl {
		return w.viol(prop, prop+".index", "missing-label", cls, "index enabled but no storage_version label on disk")
	}
	fast, lv, err := ref.ParseLabel(sc.Label)
	if err != nil || !fast {
		return w.viol(prop, prop+".index", "wrong-label", cls, fmt.Sprintf("label %q does not declare the fast index", sc.Label))
	}
	if lv != w.M.Latest {
		return w.viol(prop, prop+".index", "wrong-label", cls, fmt.Sprintf("label %q names version %d, latest is %d", sc.Label, lv, w.M.Latest))
	}
	var want *ref.SMap
	if w.M.Latest > 0 {
		want = w.M.Committed[w.M.Latest]
	} else {
		want = ref.NewSMap()
	}
	if len(sc.Fast) != want.Len() {
		return w.viol(prop, prop+".index", "wrong-entries", cls, fmt.Sprintf("fast index holds %d entries, latest version %d has %d pairs", len(sc.Fast), w.M.Latest, want.Len()))
	}
	for _, p := range want.Pairs() {
		raw, ok := sc.Fast[string(p.K)]
		if !ok {
			return w.viol(prop, prop+".index", "wrong-entries", cls, fmt.Sprintf("fast index lacks key %x of latest version %d", p.K, w.M.Latest))
		}
		fv, val, err := ref.DecodeFast(raw)
		if err != nil {
			return w.viol(prop, prop+".index", "undecodable", cls, fmt.Sprintf("fast entry %x=%x: %v", p.K, raw, err))
		}
		if !bytes.Equal(val, p.V) {
			return w.viol(prop, prop+".index", "wrong-entries", cls, fmt.Sprintf("fast entry %x=%x want %x", p.K, val, p.V))
		}
		// The stamp is not observable through any read on its own: a wrong
		// stamp only matters through the versioned reads it would corrupt,
		// which the read audits compare directly. Counted as probes only.
		if fv > lv {
			w.P.Inc("index.stamp-after-label")
		}
		if ls := w.lastSet(p.K); ls > 0 && fv < ls {
			w.P.Inc("index.stamp-before-last-write")
		}
		if enc := ref.EncodeFast(fv, val); !bytes.Equal(enc, raw) {
			return w.viol(prop, prop+".index", "not-canonical", cls, fmt.Sprintf("fast entry %x: independent encoder gives %x, stored %x", p.K, enc, raw))
		}
	}
	return nil
}

// lastSet returns the newest retained version whose writes touched k (0 = unknown).
func (w *World) lastSet(k []byte) int64 {
	var best int64
	for v, ws := range w.M.Written {
		if v <= w.M.Latest && ws[string(k)] && v > best {
			best = v
		}
	}
	return best
}
