package drv

import (
	"bytes"
	"fmt"
	"sort"

	corestore "cosmossdk.io/core/store"
	"github.com/cosmos/iavl"

	"verif/ref"
	"verif/sim"
)

// BoundSet builds the set of iteration bounds for a state: nil, empty, every
// stored key, neighbours, prefixes, extensions, below min, above max, plus
// the extra keys given (overlay-only / disk-only keys).
func BoundSet(m *ref.SMap, extra [][]byte) [][]byte {
	set := map[string]bool{}
	add := func(b []byte) { set[string(b)] = true }
	add([]byte{0})
	add([]byte{0xff, 0xff, 0xff, 0xff})
	all := append([][]byte{}, extra...)
	for _, k := range m.Keys() {
		all = append(all, []byte(k))
	}
	for _, k := range all {
		if len(k) == 0 {
			continue
		}
		add(k)
		add(append(append([]byte{}, k...), 0))
		if len(k) > 1 {
			add(k[:len(k)-1])
		}
		if k[len(k)-1] > 0 {
			p := append([]byte{}, k...)
			p[len(p)-1]--
			add(append(p, 0xff))
		}
	}
	out := make([][]byte, 0, len(set)+2)
	for k := range set {
		out = append(out, []byte(k))
	}
	sort.Slice(out, func(i, j int) bool { return bytes.Compare(out[i], out[j]) < 0 })
	// nil and empty come first
	return append([][]byte{nil, {}}, out...)
}

func sameBound(a, b []byte) bool { return bytes.Equal(a, b) } // nil == empty

// checkIterator drains it and checks the full iterator contract.
func (w *World) checkIterator(where, impl string, it corestore.Iterator, start, end []byte, want []ref.Pair) *Violation {
	bad := func(symptom, detail string) *Violation {
		return w.viol("C08", "C08.iterator", symptom, impl, fmt.Sprintf("%s %s [%x,%x): %s", where, impl, start, end, detail))
	}
	ds, de := it.Domain()
	if !sameBound(ds, start) || !sameBound(de, end) {
		_ = it.Close()
		return bad("wrong-domain", fmt.Sprintf("Domain()=(%x,%x)", ds, de))
	}
	var got []ref.Pair
	for ; it.Valid(); it.Next() {
		got = append(got, ref.Pair{K: append([]byte{}, it.Key()...), V: append([]byte{}, it.Value()...)})
		if len(got) > len(want)+4 {
			break
		}
	}
	if d := diffPairs(got, want); d != "" {
		_ = it.Close()
		return bad("wrong-range", d)
	}
	if it.Valid() {
		_ = it.Close()
		return bad("not-terminated", "Valid() after exhaustion")
	}
	if err := it.Error(); err != nil {
		_ = it.Close()
		return bad("error-on-legal-request", fmt.Sprintf("Error()=%v", err))
	}
	if it.Valid() || it.Valid() {
		return bad("not-terminated", "Valid() became true again")
	}
	if err := it.Close(); err != nil {
		return bad("error-on-legal-request", fmt.Sprintf("Close()=%v", err))
	}
	if it.Valid() {
		return bad("not-terminated", "Valid() after Close")
	}
	_ = it.Close()
	if it.Valid() {
		return bad("not-terminated", "Valid() after second Close")
	}
	// a closed iterator still answers what it was created for (seed C08-4B)
	if ds, de := it.Domain(); !sameBound(ds, start) || !sameBound(de, end) {
		return bad("wrong-domain", fmt.Sprintf("Domain()=(%x,%x) after Close", ds, de))
	}
	if err := it.Error(); err != nil {
		return bad("error-on-legal-request", fmt.Sprintf("Error()=%v after Close", err))
	}
	return nil
}

// IterStats counts iterator comparisons (evidence).
type IterStats struct {
	Ranges, Impl map[string]int
}

// AuditIterators checks every iteration interface on one state (C08).
// imm is the committed version to iterate (nil = only the working state);
// want its contents. exhaustive bounds the pair enumeration.
func (w *World) AuditIterators(where string, imm *iavl.ImmutableTree, mut *iavl.MutableTree, want *ref.SMap, extra [][]byte, r *sim.Rand, st map[string]int) *Violation {
	bounds := BoundSet(want, extra)
	type pr struct{ s, e []byte }
	var pairs []pr
	if len(bounds) <= 24 {
		for _, s := range bounds {
			for _, e := range bounds {
				pairs = append(pairs, pr{s, e})
			}
		}
	} else {
		for i := 0; i < 200; i++ {
			pairs = append(pairs, pr{bounds[r.Intn(len(bounds))], bounds[r.Intn(len(bounds))]})
		}
		pairs = append(pairs, pr{nil, nil}, pr{[]byte{}, nil}, pr{nil, []byte{}})
	}
	for _, p := range pairs {
		for _, asc := range []bool{true, false} {
			exp := want.Range(p.s, p.e, asc, false)
			if len(exp) > 0 {
				st["nonempty_ranges"]++
			}
			if p.s != nil && p.e != nil && bytes.Compare(p.s, p.e) > 0 {
				st["inverted_bounds"]++
			}
			if mut != nil {
				it, err := mut.Iterator(p.s, p.e, asc)
				if err != nil {
					return w.viol("C08", "C08.iterator", "error-on-legal-request", "mutable", fmt.Sprintf("%s MutableTree.Iterator(%x,%x,%v): %v", where, p.s, p.e, asc, err))
				}
				impl := "mutable/" + iterKind(it)
				st[impl]++
				if v := w.checkIterator(where, impl, it, p.s, p.e, exp); v != nil {
					return v
				}
			}
			if imm != nil {
				it, err := imm.Iterator(p.s, p.e, asc)
				if err != nil {
					return w.viol("C08", "C08.iterator", "error-on-legal-request", "immutable", fmt.Sprintf("%s ImmutableTree.Iterator(%x,%x,%v): %v", where, p.s, p.e, asc, err))
				}
				impl := "immutable/" + iterKind(it)
				st[impl]++
				if v := w.checkIterator(where, impl, it, p.s, p.e, exp); v != nil {
					return v
				}
				// the tree-walk iterator, whatever the fast-index setting
				wit := iavl.NewIterator(p.s, p.e, asc, imm)
				st["treewalk"]++
				if v := w.checkIterator(where, "treewalk", wit, p.s, p.e, exp); v != nil {
					return v
				}
				// callback forms
				for _, incl := range []bool{false, true} {
					expc := want.Range(p.s, p.e, asc, incl)
					var got []ref.Pair
					cb := func(k, v []byte) bool {
						got = append(got, ref.Pair{K: append([]byte{}, k...), V: append([]byte{}, v...)})
						return false
					}
					var stopped bool
					name := "IterateRange"
					if incl {
						name = "IterateRangeInclusive"
						stopped = imm.IterateRangeInclusive(p.s, p.e, asc, func(k, v []byte, _ int64) bool { return cb(k, v) })
					} else {
						stopped = imm.IterateRange(p.s, p.e, asc, cb)
					}
					st[name]++
					if stopped {
						return w.viol("C08", "C08.callback", "wrong-value", name, fmt.Sprintf("%s %s(%x,%x,%v) reported stopped without a stop request", where, name, p.s, p.e, asc))
					}
					if d := diffPairs(got, expc); d != "" {
						return w.viol("C08", "C08.callback", "wrong-range", name, fmt.Sprintf("%s %s(%x,%x,%v): %s", where, name, p.s, p.e, asc, d))
					}
					// a callback that asks to stop at element j stops there
					if len(expc) > 0 {
						j := r.Intn(len(expc))
						n := 0
						stop := func(k, v []byte) bool { n++; return n == j+1 }
						if incl {
							stopped = imm.IterateRangeInclusive(p.s, p.e, asc, func(k, v []byte, _ int64) bool { return stop(k, v) })
						} else {
							stopped = imm.IterateRange(p.s, p.e, asc, stop)
						}
						st["stop_points"]++
						if !stopped || n != j+1 {
							return w.viol("C08", "C08.callback", "stop-ignored", name, fmt.Sprintf("%s %s(%x,%x,%v): stop requested at element %d, callback ran %d times, stopped=%v", where, name, p.s, p.e, asc, j, n, stopped))
						}
					}
				}
			}
		}
	}
	// Iterate with every stop point
	type iterater interface {
		Iterate(func(k, v []byte) bool) (bool, error)
	}
	var its []iterater
	var names []string
	if mut != nil {
		its, names = append(its, mut), append(names, "MutableTree.Iterate")
	}
	if imm != nil {
		its, names = append(its, imm), append(names, "ImmutableTree.Iterate")
	}
	all := want.Pairs()
	for i, itx := range its {
		for j := -1; j < len(all); j++ {
			n := 0
			var last []byte
			stopped, err := itx.Iterate(func(k, v []byte) bool {
				n++
				last = append([]byte{}, k...)
				return n == j+1
			})
			if err != nil {
				return w.viol("C08", "C08.callback", "error-on-legal-request", names[i], fmt.Sprintf("%s %s: %v", where, names[i], err))
			}
			st["stop_points"]++
			if j >= 0 {
				if !stopped || n != j+1 || !bytes.Equal(last, all[j].K) {
					return w.viol("C08", "C08.callback", "stop-ignored", names[i], fmt.Sprintf("%s %s: stop at %d: ran %d times, stopped=%v, last key %x want %x", where, names[i], j, n, stopped, last, all[j].K))
				}
			} else if stopped || n != len(all) {
				return w.viol("C08", "C08.callback", "wrong-range", names[i], fmt.Sprintf("%s %s: ran %d times want %d, stopped=%v", where, names[i], n, len(all), stopped))
			}
		}
	}
	return nil
}

func iterKind(it corestore.Iterator) string {
	switch it.(type) {
	case *iavl.Iterator:
		return "treewalk"
	case *iavl.FastIterator:
		return "fast"
	case *iavl.UnsavedFastIterator:
		return "unsaved"
	}
	return fmt.Sprintf("%T", it)
}
