package drv

import (
	"bytes"
	"fmt"

	ics23 "github.com/cosmos/ics23/go"

	"verif/ref"
	"verif/sim"
)

// prover is the proof API shared by the working tree and committed versions.
type prover interface {
	GetProof(key []byte) (*ics23.CommitmentProof, error)
	GetMembershipProof(key []byte) (*ics23.CommitmentProof, error)
	GetNonMembershipProof(key []byte) (*ics23.CommitmentProof, error)
}

// ProofStats counts proof verifications (evidence).
type ProofStats struct{ Positive, Negative int }

// AuditProofs checks completeness, binding and error behaviour of the proofs
// of one tree state (C03). root is R2's root hash of that state, want R1's
// contents, others the (root, contents) of the other retained versions.
func (w *World) AuditProofs(where string, pr prover, root []byte, want *ref.SMap, keys [][]byte, others map[int64]*ref.SMap, r *sim.Rand, st *ProofStats) *Violation {
	bad := func(oracle, symptom, detail string) *Violation {
		return w.viol("C03", oracle, symptom, where, where+": "+detail)
	}
	if want.Len() == 0 {
		if len(keys) > 0 {
			if p, err := pr.GetProof(keys[0]); err == nil {
				return bad("C03.errors", "accepted", fmt.Sprintf("GetProof(%x) on an empty tree returned a proof %v", keys[0], p != nil))
			}
		}
		return nil
	}
	if _, has := want.Get([]byte{}); has {
		// ICS-23 cannot express the empty key (an existence proof "must have key
		// set"), neither as the claim nor as a neighbour of an absent key: states
		// holding it (only generated for index-less export/import runs) have no
		// verifiable proofs - a limit of the specification
		return nil
	}
	full := len(keys) <= 24
	wantKeys := want.Keys()
	for _, k := range keys {
		val, present := want.Get(k)
		p, err := pr.GetProof(k)
		if err != nil {
			return bad("C03.complete", "error-on-legal-request", fmt.Sprintf("GetProof(%x): %v (present=%v)", k, err, present))
		}
		if present {
			if p.GetExist() == nil {
				return bad("C03.complete", "wrong-kind", fmt.Sprintf("GetProof(%x) for a present key is not a membership proof", k))
			}
			if !ics23.VerifyMembership(ics23.IavlSpec, root, p, k, val) {
				return bad("C03.complete", "does-not-verify", fmt.Sprintf("membership proof of (%x,%x) does not verify against the reference root %x", k, val, root))
			}
			st.Positive++
			p2, err := pr.GetMembershipProof(k)
			if err != nil || !ics23.VerifyMembership(ics23.IavlSpec, root, p2, k, val) {
				return bad("C03.complete", "does-not-verify", fmt.Sprintf("GetMembershipProof(%x): err=%v or does not verify", k, err))
			}
			if _, err := pr.GetNonMembershipProof(k); err == nil {
				return bad("C03.errors", "accepted", fmt.Sprintf("GetNonMembershipProof(%x) of a present key returned a proof", k))
			}
			// binding: never verifies for a different value, the opposite claim,
			// a different key, or a root in which the claim is false
			if ics23.VerifyMembership(ics23.IavlSpec, root, p, k, append(append([]byte{}, val...), 'x')) {
				return bad("C03.binding", "verifies-wrong-claim", fmt.Sprintf("membership proof of %x verifies for a different value", k))
			}
			if len(val) > 0 && ics23.VerifyMembership(ics23.IavlSpec, root, p, k, val[:len(val)-1]) {
				return bad("C03.binding", "verifies-wrong-claim", fmt.Sprintf("membership proof of %x verifies for a truncated value", k))
			}
			if ics23.VerifyNonMembership(ics23.IavlSpec, root, p, k) {
				return bad("C03.binding", "verifies-wrong-claim", fmt.Sprintf("membership proof of %x verifies as non-membership", k))
			}
			st.Negative += 3
			for _, k2 := range keys {
				if bytes.Equal(k2, k) || (!full && !r.Chance(1, 4)) {
					continue
				}
				if v2, ok := want.Get(k2); ok && bytes.Equal(v2, val) {
					continue
				}
				st.Negative++
				if ics23.VerifyMembership(ics23.IavlSpec, root, p, k2, val) {
					return bad("C03.binding", "verifies-wrong-claim", fmt.Sprintf("membership proof of %x verifies for key %x", k, k2))
				}
			}
			for ov, om := range others {
				if v2, ok := om.Get(k); ok && bytes.Equal(v2, val) {
					continue
				}
				st.Negative++
				if ics23.VerifyMembership(ics23.IavlSpec, w.T.RootHash(ov), p, k, val) {
					return bad("C03.binding", "verifies-wrong-root", fmt.Sprintf("membership proof of (%x,%x) verifies against the root of version %d where the claim is false", k, val, ov))
				}
			}
		} else {
			ne := p.GetNonexist()
			if ne == nil {
				return bad("C03.complete", "wrong-kind", fmt.Sprintf("GetProof(%x) for an absent key is not a non-membership proof", k))
			}
			if !ics23.VerifyNonMembership(ics23.IavlSpec, root, p, k) {
				return bad("C03.complete", "does-not-verify", fmt.Sprintf("non-membership proof of %x does not verify against the reference root %x", k, root))
			}
			st.Positive++
			// bracketed by exactly the adjacent keys
			rank, _ := want.Rank(k)
			var wl, wr []byte
			if rank > 0 {
				wl = []byte(wantKeys[rank-1])
			}
			if rank < len(wantKeys) {
				wr = []byte(wantKeys[rank])
			}
			var gl, gr []byte
			if ne.Left != nil {
				gl = ne.Left.Key
			}
			if ne.Right != nil {
				gr = ne.Right.Key
			}
			if !bytes.Equal(gl, wl) || !bytes.Equal(gr, wr) || (ne.Left == nil) != (wl == nil) || (ne.Right == nil) != (wr == nil) {
				return bad("C03.complete", "wrong-neighbours", fmt.Sprintf("non-membership proof of %x is bracketed by (%x,%x) want (%x,%x)", k, gl, gr, wl, wr))
			}
			p2, err := pr.GetNonMembershipProof(k)
			if err != nil || !ics23.VerifyNonMembership(ics23.IavlSpec, root, p2, k) {
				return bad("C03.complete", "does-not-verify", fmt.Sprintf("GetNonMembershipProof(%x): err=%v or does not verify", k, err))
			}
			if _, err := pr.GetMembershipProof(k); err == nil {
				return bad("C03.errors", "accepted", fmt.Sprintf("GetMembershipProof(%x) of an absent key returned a proof", k))
			}
			if ics23.VerifyMembership(ics23.IavlSpec, root, p, k, []byte("x")) || ics23.VerifyMembership(ics23.IavlSpec, root, p, k, []byte{}) {
				return bad("C03.binding", "verifies-wrong-claim", fmt.Sprintf("non-membership proof of %x verifies as membership", k))
			}
			st.Negative += 2
			for _, k2 := range keys {
				if _, ok := want.Get(k2); !ok {
					continue // another absent key in the same gap may legitimately be covered
				}
				if !full && !r.Chance(1, 4) {
					continue
				}
				st.Negative++
				if ics23.VerifyNonMembership(ics23.IavlSpec, root, p, k2) {
					return bad("C03.binding", "verifies-wrong-claim", fmt.Sprintf("non-membership proof of %x verifies for present key %x", k, k2))
				}
			}
			for ov, om := range others {
				if _, ok := om.Get(k); !ok {
					continue
				}
				st.Negative++
				if ics23.VerifyNonMembership(ics23.IavlSpec, w.T.RootHash(ov), p, k) {
					return bad("C03.binding", "verifies-wrong-root", fmt.Sprintf("non-membership proof of %x verifies against the root of version %d where the key is present", k, ov))
				}
			}
		}
	}
	return nil
}

// AuditAllProofs runs AuditProofs on the working tree and every retained version.
func (w *World) AuditAllProofs(r *sim.Rand, st *ProofStats) *Violation {
	keys := w.ProbeKeys()
	others := func(except int64) map[int64]*ref.SMap {
		m := map[int64]*ref.SMap{}
		for _, v := range w.M.Versions() {
			if v != except {
				m[v] = w.M.Committed[v]
			}
		}
		return m
	}
	if v := w.AuditProofs("working", w.Tree, w.T.WorkingHash(), w.M.Working, keys, others(-1), r, st); v != nil {
		return v
	}
	for _, ver := range w.M.Versions() {
		it, err := w.Tree.GetImmutable(ver)
		if err != nil {
			return w.viol("C03", "C03.complete", "version-unreadable", "committed", fmt.Sprintf("GetImmutable(%d): %v", ver, err))
		}
		if v := w.AuditProofs("committed", it, w.T.RootHash(ver), w.M.Committed[ver], keys, others(ver), r, st); v != nil {
			v.Detail = fmt.Sprintf("v%d: %s", ver, v.Detail)
			return v
		}
		// versioned proof entry point of the mutable tree
		if _, hasEmptyKey := w.M.Committed[ver].Get([]byte{}); len(keys) > 0 && w.M.Committed[ver].Len() > 0 && !hasEmptyKey {
			k := keys[r.Intn(len(keys))]
			p, err := w.Tree.GetVersionedProof(k, ver)
			if err != nil {
				return w.viol("C03", "C03.complete", "error-on-legal-request", "versioned", fmt.Sprintf("GetVersionedProof(%x,%d): %v", k, ver, err))
			}
			val, present := w.M.Committed[ver].Get(k)
			ok := false
			if present {
				ok = ics23.VerifyMembership(ics23.IavlSpec, w.T.RootHash(ver), p, k, val)
			} else {
				ok = ics23.VerifyNonMembership(ics23.IavlSpec, w.T.RootHash(ver), p, k)
			}
			if !ok {
				return w.viol("C03", "C03.complete", "does-not-verify", "versioned", fmt.Sprintf("GetVersionedProof(%x,%d) does not verify (present=%v)", k, ver, present))
			}
			st.Positive++
		}
	}
	if _, err := w.Tree.GetVersionedProof([]byte("k"), w.M.Latest+1); err == nil {
		return w.viol("C03", "C03.errors", "accepted", "versioned", "GetVersionedProof of a version that does not exist returned a proof")
	}
	return nil
}
