package drv

import (
	"bytes"
	"fmt"

	corestore "cosmossdk.io/core/store"
	"github.com/cosmos/iavl"

	"verif/ref"
)

// reader is the read API shared by MutableTree (working state) and
// ImmutableTree (a committed version).
type reader interface {
	Get([]byte) ([]byte, error)
	Has([]byte) (bool, error)
	GetWithIndex([]byte) (int64, []byte, error)
	GetByIndex(int64) ([]byte, []byte, error)
	Size() int64
	Iterate(func(k, v []byte) bool) (bool, error)
	Iterator(start, end []byte, asc bool) (corestore.Iterator, error)
}

var (
	_ reader = (*iavl.MutableTree)(nil)
	_ reader = (*iavl.ImmutableTree)(nil)
)

func sameVal(got, want []byte, present bool) bool {
	if !present {
		return got == nil
	}
	return got != nil && bytes.Equal(got, want)
}

// AuditReads compares every read of r with the model map want. prop/oracle
// name the clause on whose behalf the audit runs; where names the state.
func (w *World) AuditReads(prop, oracle, where string, r reader, want *ref.SMap, keys [][]byte) *Violation {
	bad := func(symptom, detail string) *Violation {
		return w.viol(prop, oracle, symptom, where, detail)
	}
	if n := r.Size(); n != int64(want.Len()) {
		return bad("wrong-size", fmt.Sprintf("%s: Size()=%d want %d", where, n, want.Len()))
	}
	for _, k := range keys {
		wv, ok := want.Get(k)
		got, err := r.Get(k)
		if err != nil {
			return bad("error-on-legal-request", fmt.Sprintf("%s: Get(%x): %v", where, k, err))
		}
		if !sameVal(got, wv, ok) {
			sym := "wrong-value"
			if ok && got == nil {
				sym = "spurious-absence"
			} else if !ok {
				sym = "spurious-presence"
			}
			return bad(sym, fmt.Sprintf("%s: Get(%x)=%x want %x present=%v", where, k, got, wv, ok))
		}
		has, err := r.Has(k)
		if err != nil {
			return bad("error-on-legal-request", fmt.Sprintf("%s: Has(%x): %v", where, k, err))
		}
		if has != ok {
			return bad("wrong-value", fmt.Sprintf("%s: Has(%x)=%v want %v", where, k, has, ok))
		}
		idx, val, err := r.GetWithIndex(k)
		if err != nil {
			return bad("error-on-legal-request", fmt.Sprintf("%s: GetWithIndex(%x): %v", where, k, err))
		}
		rank, _ := want.Rank(k)
		if idx != int64(rank) || !sameVal(val, wv, ok) {
			return bad("wrong-value", fmt.Sprintf("%s: GetWithIndex(%x)=(%d,%x) want (%d,%x) present=%v", where, k, idx, val, rank, wv, ok))
		}
	}
	n := want.Len()
	for i := -1; i <= n+1; i++ {
		k, v, err := r.GetByIndex(int64(i))
		if err != nil {
			return bad("error-on-legal-request", fmt.Sprintf("%s: GetByIndex(%d): %v", where, i, err))
		}
		p, ok := want.ByIndex(i)
		if !ok {
			if k != nil || v != nil {
				return bad("wrong-value", fmt.Sprintf("%s: GetByIndex(%d)=(%x,%x) want (nil,nil) n=%d", where, i, k, v, n))
			}
			continue
		}
		if !bytes.Equal(k, p.K) || !sameVal(v, p.V, true) {
			return bad("wrong-value", fmt.Sprintf("%s: GetByIndex(%d)=(%x,%x) want (%x,%x)", where, i, k, v, p.K, p.V))
		}
		// inverse
		idx, _, err := r.GetWithIndex(k)
		if err != nil || idx != int64(i) {
			return bad("wrong-value", fmt.Sprintf("%s: GetWithIndex(GetByIndex(%d)) = %d, %v", where, i, idx, err))
		}
	}
	// ordered iteration, callback form
	var got []ref.Pair
	stopped, err := r.Iterate(func(k, v []byte) bool {
		got = append(got, ref.Pair{K: append([]byte{}, k...), V: append([]byte{}, v...)})
		return false
	})
	if err != nil {
		return bad("error-on-legal-request", fmt.Sprintf("%s: Iterate: %v", where, err))
	}
	if stopped {
		return bad("wrong-value", fmt.Sprintf("%s: Iterate reported stopped without a stop request", where))
	}
	if d := diffPairs(got, want.Pairs()); d != "" {
		return bad("wrong-iteration", fmt.Sprintf("%s: Iterate: %s", where, d))
	}
	// iterator form, full range both directions
	for _, asc := range []bool{true, false} {
		it, err := r.Iterator(nil, nil, asc)
		if err != nil {
			return bad("error-on-legal-request", fmt.Sprintf("%s: Iterator(nil,nil,%v): %v", where, asc, err))
		}
		ps, ierr := drain(it)
		if ierr != nil {
			return bad("error-on-legal-request", fmt.Sprintf("%s: Iterator(nil,nil,%v) error: %v", where, asc, ierr))
		}
		if d := diffPairs(ps, want.Range(nil, nil, asc, false)); d != "" {
			return bad("wrong-iteration", fmt.Sprintf("%s: Iterator(nil,nil,%v): %s", where, asc, d))
		}
	}
	return nil
}

// drain reads an iterator to exhaustion and closes it.
func drain(it corestore.Iterator) ([]ref.Pair, error) {
	var out []ref.Pair
	for ; it.Valid(); it.Next() {
		out = append(out, ref.Pair{K: append([]byte{}, it.Key()...), V: append([]byte{}, it.Value()...)})
		if len(out) > 1<<20 {
			_ = it.Close()
			return out, fmt.Errorf("iterator does not terminate")
		}
	}
	err := it.Error()
	if cerr := it.Close(); err == nil {
		err = cerr
	}
	return out, err
}

func diffPairs(got, want []ref.Pair) string {
	if len(got) != len(want) {
		return fmt.Sprintf("got %d pairs want %d (got %s want %s)", len(got), len(want), fmtPairs(got), fmtPairs(want))
	}
	for i := range got {
		if !bytes.Equal(got[i].K, want[i].K) || !bytes.Equal(got[i].V, want[i].V) {
			return fmt.Sprintf("pair %d = (%x,%x) want (%x,%x)", i, got[i].K, got[i].V, want[i].K, want[i].V)
		}
	}
	return ""
}

func fmtPairs(ps []ref.Pair) string {
	s := "["
	for i, p := range ps {
		if i > 0 {
			s += " "
		}
		if i >= 8 {
			s += "..."
			break
		}
		s += fmt.Sprintf("%x=%x", p.K, p.V)
	}
	return s + "]"
}

// AuditWorking checks all reads of the working state against R1.
func (w *World) AuditWorking(prop, oracle string, keys [][]byte) *Violation {
	return w.AuditReads(prop, oracle, "working", w.Tree, w.M.Working, keys)
}

// AuditVersion checks all reads of committed version v against R1 and, when
// deep, the versioned lookups.
func (w *World) AuditVersion(prop, oracle string, v int64, keys [][]byte) *Violation {
	want := w.M.Committed[v]
	it, err := w.Tree.GetImmutable(v)
	if err != nil {
		return w.viol(prop, oracle, "version-unreadable", "committed", fmt.Sprintf("GetImmutable(%d): %v (retained %v)", v, err, w.M.Versions()))
	}
	if vv := w.AuditReads(prop, oracle, "committed", it, want, keys); vv != nil {
		vv.Detail = fmt.Sprintf("v%d: %s", v, vv.Detail)
		return vv
	}
	for _, k := range keys {
		wv, ok := want.Get(k)
		got, err := w.Tree.GetVersioned(k, v)
		if err != nil {
			return w.viol(prop, oracle, "error-on-legal-request", "versioned", fmt.Sprintf("GetVersioned(%x,%d): %v", k, v, err))
		}
		if !sameVal(got, wv, ok) {
			return w.viol(prop, oracle, "wrong-value", "versioned", fmt.Sprintf("GetVersioned(%x,%d)=%x want %x present=%v", k, v, got, wv, ok))
		}
	}
	return nil
}

// AuditAll audits the working state and every retained version.
func (w *World) AuditAll(prop, oracle string) *Violation {
	keys := w.ProbeKeys()
	if v := w.AuditWorking(prop, oracle, keys); v != nil {
		return v
	}
	for _, ver := range w.M.Versions() {
		if v := w.AuditVersion(prop, oracle, ver, keys); v != nil {
			return v
		}
	}
	return nil
}
