package drv

import (
	"bytes"
	"errors"
	"fmt"

	"github.com/cosmos/iavl"

	"verif/ref"
	"verif/sim"
)

func init() {
	extraOps[OpReads] = (*World).applyReads
	extraOps[OpExpImp] = (*World).applyExpImp
	extraOps[OpPin] = (*World).applyPin
	extraOps[OpUnpin] = (*World).applyUnpin
	extraOps[OpBadLoad] = (*World).applyBadLoad
}

// MaxImportVersion bounds the versions used with Import: newImporter allocates
// a slice of version+1 entries, so a huge initial version would test the
// sandbox's memory, not the statement.
const MaxImportVersion = 1_000_000

// applyReads executes a bundle of read-only calls (C02's "programs"
// quantifier). Results are compared with the models too: a read is never
// allowed to be wrong, whoever asked for it.
func (w *World) applyReads(s Step) *Violation {
	keys := w.ProbeKeys()
	r := sim.Sub(uint64(s.ID)*7919+1, "reads")
	pick := func() []byte { return keys[r.Intn(len(keys))] }
	for _, c := range s.Reads {
		switch c {
		case "get":
			_, _ = w.Tree.Get(pick())
		case "has":
			_, _ = w.Tree.Has(pick())
		case "getwithindex":
			_, _, _ = w.Tree.GetWithIndex(pick())
		case "getbyindex":
			_, _, _ = w.Tree.GetByIndex(int64(r.Intn(int(w.Tree.Size()) + 2)))
		case "iterate":
			_, _ = w.Tree.Iterate(func(k, v []byte) bool { return false })
		case "iterator":
			if it, err := w.Tree.Iterator(nil, nil, r.Chance(1, 2)); err == nil {
				_, _ = drain(it)
			}
		case "proof":
			if w.Tree.Size() > 0 {
				_, _ = w.Tree.GetProof(pick())
			}
		case "membership":
			if w.Tree.Size() > 0 {
				_, _ = w.Tree.GetMembershipProof(pick())
			}
		case "nonmembership":
			if w.Tree.Size() > 0 {
				_, _ = w.Tree.GetNonMembershipProof(pick())
			}
		case "hash":
			_ = w.Tree.Hash()
		case "workinghash":
			_ = w.Tree.WorkingHash()
		case "getversioned":
			if vs := w.M.Versions(); len(vs) > 0 {
				_, _ = w.Tree.GetVersioned(pick(), vs[r.Intn(len(vs))])
			}
		case "versionexists":
			_ = w.Tree.VersionExists(int64(r.Intn(int(w.M.Latest%1000) + 3)))
		case "getimmutable":
			if vs := w.M.Versions(); len(vs) > 0 {
				if it, err := w.Tree.GetImmutable(vs[r.Intn(len(vs))]); err == nil {
					_ = it.Hash()
					if it.Size() > 0 {
						_, _ = it.GetProof(pick())
					}
					_, _ = it.Get(pick())
				}
			}
		case "size":
			_ = w.Tree.Size()
			_ = w.Tree.Height()
		case "available":
			_ = w.Tree.AvailableVersions()
		}
	}
	return nil
}

// ExportAll drains an exporter.
func ExportAll(next func() (*iavl.ExportNode, error)) ([]*iavl.ExportNode, error) {
	var out []*iavl.ExportNode
	for {
		n, err := next()
		if errors.Is(err, iavl.ErrorExportDone) {
			return out, nil
		}
		if err != nil {
			return out, err
		}
		out = append(out, n)
		if len(out) > 1<<22 {
			return out, errors.New("export does not terminate")
		}
	}
}

// CompareExport compares an export stream with R2's post-order stream.
func CompareExport(got []*iavl.ExportNode, want []ref.ExportNode) string {
	if len(got) != len(want) {
		return fmt.Sprintf("export stream has %d nodes want %d", len(got), len(want))
	}
	for i := range got {
		g, x := got[i], want[i]
		if g.Height != x.Height || g.Version != x.Version || !bytes.Equal(g.Key, x.Key) || !bytes.Equal(g.Value, x.Value) || (g.Height == 0) != (g.Value != nil) {
			return fmt.Sprintf("export node %d = {k=%x v=%x ver=%d h=%d} want {k=%x v=%x ver=%d h=%d}", i, g.Key, g.Value, g.Version, g.Height, x.Key, x.Value, x.Version, x.Height)
		}
	}
	return ""
}

// applyExpImp exports version N, imports the stream into an empty database on
// a fresh simulated disk and continues the run on the imported tree.
func (w *World) applyExpImp(s Step) *Violation {
	if w.Sim == nil || !w.M.Has(s.N) || s.N > MaxImportVersion || w.M.Cur != w.M.Latest || len(w.Pins) > 0 {
		return nil
	}
	bad := func(oracle, symptom, detail string) *Violation {
		return w.viol("C10", oracle, symptom, "expimp/"+s.Codec, detail)
	}
	it, err := w.Tree.GetImmutable(s.N)
	if err != nil {
		return bad("C10.export", "error-on-legal-request", fmt.Sprintf("GetImmutable(%d): %v", s.N, err))
	}
	exp, err := it.Export()
	if err != nil {
		return bad("C10.export", "error-on-legal-request", fmt.Sprintf("Export(%d): %v", s.N, err))
	}
	// the uncompressed stream is compared with R2 first (a second exporter
	// feeds the compressed pipeline, because CompressExporter rewrites nodes in place)
	nodes, err := ExportAll(exp.Next)
	exp.Close()
	if err != nil {
		return bad("C10.export", "error-on-legal-request", fmt.Sprintf("Exporter.Next: %v", err))
	}
	if d := CompareExport(nodes, ref.Export(w.T.Roots[s.N])); d != "" {
		return bad("C10.export-stream", "wrong-stream", fmt.Sprintf("version %d: %s", s.N, d))
	}
	switch {
	case len(nodes) == 0:
		w.P.Inc("expimp.empty")
	case len(nodes) == 1:
		w.P.Inc("expimp.single-leaf")
	}
	if root := w.T.Roots[s.N]; root != nil && root.Ver < s.N {
		w.P.Inc("expimp.inherited-root")
	}

	// importer on a fresh disk
	nd := sim.NewSimDB()
	nd.AcctLevelDB = w.Cfg.AcctLDB
	nd.KeepSnaps = w.Sim.KeepSnaps
	fast, cache := w.Fast, w.Cache
	if s.Fast != nil {
		fast = *s.Fast
	}
	if s.Cache != nil {
		cache = *s.Cache
	}
	old := w.DB
	w.DB = nd
	nt := w.NewHandle(fast, cache)
	w.DB = old
	// half of the imports go into a handle that was never loaded (how the
	// library's own tests and a state-sync restore into a fresh store do it),
	// half into one that loaded the empty store first (seed C07-4A)
	if s.ID%2 == 0 {
		if _, err := nt.Load(); err != nil {
			return bad("C10.import", "error-on-legal-request", fmt.Sprintf("Load of the empty target: %v", err))
		}
		w.P.Inc("expimp.target-loaded-first")
	} else {
		w.P.Inc("expimp.target-never-loaded")
	}
	imp, err := nt.Import(s.N)
	if err != nil {
		return bad("C10.import", "error-on-legal-request", fmt.Sprintf("Import(%d): %v", s.N, err))
	}
	if s.Codec == "compress" {
		exp2, err := it.Export()
		if err != nil {
			return bad("C10.export", "error-on-legal-request", fmt.Sprintf("Export(%d): %v", s.N, err))
		}
		ce := iavl.NewCompressExporter(exp2)
		ci := iavl.NewCompressImporter(imp)
		for {
			n, err := ce.Next()
			if errors.Is(err, iavl.ErrorExportDone) {
				break
			}
			if err != nil {
				exp2.Close()
				return bad("C10.export", "error-on-legal-request", fmt.Sprintf("CompressExporter.Next: %v", err))
			}
			if err := ci.Add(n); err != nil {
				exp2.Close()
				return bad("C10.import", "error-on-legal-request", fmt.Sprintf("CompressImporter.Add: %v", err))
			}
		}
		exp2.Close()
	} else {
		for _, n := range nodes {
			if err := imp.Add(n); err != nil {
				return bad("C10.import", "error-on-legal-request", fmt.Sprintf("Importer.Add: %v", err))
			}
		}
	}
	if err := imp.Commit(); err != nil {
		return bad("C10.import", "error-on-legal-request", fmt.Sprintf("Importer.Commit: %v", err))
	}
	imp.Close()

	// switch the world to the imported database
	w.closeHandle()
	w.Sim, w.DB, w.Tree = nd, nd, nt
	w.Fast, w.Cache = fast, cache
	w.Sim.BeginStep(s.ID)
	keepM, keepT := w.M.Committed[s.N], w.T.Roots[s.N]
	keepW := w.M.Written[s.N]
	w.M.Committed = map[int64]*ref.SMap{s.N: keepM}
	w.M.Written = map[int64]map[string]bool{s.N: keepW}
	w.M.First, w.M.Latest = s.N, s.N
	w.M.Load(s.N)
	w.T.Roots = map[int64]*ref.TNode{s.N: keepT}
	w.T.Latest = s.N
	w.T.Load(s.N)
	w.Imported = true
	w.P.Inc("expimp.done")

	if h := w.Tree.Hash(); !bytes.Equal(h, w.T.RootHash(s.N)) {
		return bad("C10.import-hash", "hash-mismatch", fmt.Sprintf("imported tree hash %x want %x", h, w.T.RootHash(s.N)))
	}
	return nil
}

func (w *World) applyPin(s Step) *Violation {
	if !w.M.Has(s.N) || w.Pins[s.N] != nil {
		return nil
	}
	it, err := w.Tree.GetImmutable(s.N)
	if err != nil {
		return w.viol("C04", "C04.step", "version-unreadable", "pin", fmt.Sprintf("GetImmutable(%d): %v", s.N, err))
	}
	e, err := it.Export()
	if err != nil {
		return w.viol("C04", "C04.step", "error-on-legal-request", "pin", fmt.Sprintf("Export(%d): %v", s.N, err))
	}
	w.Pins[s.N] = e
	w.FreeHelpers = true
	w.P.Inc("pin.opened")
	if s.ID%3 == 0 {
		// a second export of the same version, closed at once - and closed
		// twice ("safe to call multiple times"): the first one is still open,
		// the version stays pinned (seeds C06-A, C04-4A)
		if e2, err := it.Export(); err == nil {
			e2.Close()
			e2.Close()
			w.P.Inc("pin.sibling-export-closed-twice")
		}
	}
	return nil
}

func (w *World) applyUnpin(s Step) *Violation {
	if e := w.Pins[s.N]; e != nil {
		e.Close()
		delete(w.Pins, s.N)
	}
	return nil
}

// applyBadLoad queries versions outside the range; they must fail (or return
// nil for GetVersioned) and leave the tree usable (the following steps and
// audits check that).
func (w *World) applyBadLoad(s Step) *Violation {
	if w.M.Has(s.N) {
		return nil
	}
	if _, err := w.Tree.GetImmutable(s.N); err == nil {
		return w.viol("C14", "C14.getimmutable", "accepted", "badload", fmt.Sprintf("GetImmutable(%d) succeeded, retained %v", s.N, w.M.Versions()))
	}
	if s.N > 0 {
		h := w.NewHandle(false, 0)
		_, err := h.LoadVersion(s.N)
		_ = h.Close()
		if err == nil {
			return w.viol("C14", "C14.loadversion", "accepted", "badload", fmt.Sprintf("LoadVersion(%d) succeeded, retained %v", s.N, w.M.Versions()))
		}
		if s.ID%2 == 0 {
			// ... and on the LIVE handle, whatever uncommitted changes it holds:
			// the refused load must leave it exactly as it was ("leaves the tree
			// usable": the audits that follow read the working state through every
			// path, the next commit must be the canonical one) - seed C14-4B
			if _, err := w.Tree.LoadVersion(s.N); err == nil {
				return w.viol("C14", "C14.loadversion", "accepted", "badload-live", fmt.Sprintf("LoadVersion(%d) on the live handle succeeded, retained %v", s.N, w.M.Versions()))
			}
			w.P.Inc("badload.live-handle")
			if w.M.Working != nil && !w.Clean() {
				w.P.Inc("badload.live-handle-with-uncommitted-changes")
			}
		}
	}
	w.P.Inc("badload")
	return nil
}
