package drv

import (
	"bytes"
	"fmt"
	"math"

	"verif/ref"
)

// AuditHashes compares every observable hash with R2 (C02).
func (w *World) AuditHashes() *Violation {
	if w.M.Cur > 0 && w.M.Has(w.M.Cur) {
		if h := w.Tree.Hash(); !bytes.Equal(h, w.T.RootHash(w.M.Cur)) {
			return w.viol("C02", "C02.hash", "hash-mismatch", "Hash", fmt.Sprintf("Hash()=%x want %x (version %d)", h, w.T.RootHash(w.M.Cur), w.M.Cur))
		}
	}
	if h := w.Tree.WorkingHash(); !bytes.Equal(h, w.T.WorkingHash()) {
		return w.viol("C02", "C02.hash", "hash-mismatch", "WorkingHash", fmt.Sprintf("WorkingHash()=%x want %x", h, w.T.WorkingHash()))
	}
	for _, v := range w.M.Versions() {
		it, err := w.Tree.GetImmutable(v)
		if err != nil {
			return w.viol("C02", "C02.hash", "version-unreadable", "GetImmutable", fmt.Sprintf("GetImmutable(%d): %v", v, err))
		}
		if h := it.Hash(); !bytes.Equal(h, w.T.RootHash(v)) {
			return w.viol("C02", "C02.hash", "hash-mismatch", "ImmutableHash", fmt.Sprintf("GetImmutable(%d).Hash()=%x want %x", v, h, w.T.RootHash(v)))
		}
	}
	return nil
}

// AVLBound is the height bound 1.4405*log2(n+2).
func AVLBound(n int64) float64 { return 1.4405 * math.Log2(float64(n)+2) }

// AuditShape checks Height/Size of the working tree and every retained
// version against R2 and the AVL bound (C11).
func (w *World) AuditShape() *Violation {
	check := func(where string, h int8, n int64, want *ref.TNode) *Violation {
		if h != ref.Height(want) || n != ref.Size(want) {
			return w.viol("C11", "C11.shape", "wrong-value", where, fmt.Sprintf("%s: Height=%d Size=%d want %d/%d", where, h, n, ref.Height(want), ref.Size(want)))
		}
		if float64(h) > AVLBound(n) {
			return w.viol("C11", "C11.balance", "unbalanced", where, fmt.Sprintf("%s: height %d exceeds 1.4405*log2(%d+2)=%.2f", where, h, n, AVLBound(n)))
		}
		if err := ref.CheckShape(want); err != nil {
			panic("R2 shape invariant broken: " + err.Error())
		}
		return nil
	}
	if v := check("working", w.Tree.Height(), w.Tree.Size(), w.T.Work); v != nil {
		return v
	}
	for _, ver := range w.M.Versions() {
		it, err := w.Tree.GetImmutable(ver)
		if err != nil {
			return w.viol("C11", "C11.shape", "version-unreadable", "committed", fmt.Sprintf("GetImmutable(%d): %v", ver, err))
		}
		if v := check("committed", it.Height(), it.Size(), w.T.Roots[ver]); v != nil {
			v.Detail = fmt.Sprintf("v%d: %s", ver, v.Detail)
			return v
		}
	}
	return nil
}

// AuditVersions checks all version-bookkeeping APIs for every version number
// 0..latest+1 against R1's contiguous range (C14). scratch additionally tries
// LoadVersion on a scratch handle.
func (w *World) AuditVersions(where string, scratch bool) *Violation {
	latest, err := w.Tree.GetLatestVersion()
	if err != nil || latest != w.M.Latest {
		return w.viol("C14", "C14.latest", "wrong-value", where, fmt.Sprintf("%s: GetLatestVersion()=(%d,%v) want %d", where, latest, err, w.M.Latest))
	}
	avail := map[int64]bool{}
	av := w.Tree.AvailableVersions()
	for i, v := range av {
		avail[int64(v)] = true
		if i > 0 && av[i-1] >= v {
			return w.viol("C14", "C14.available", "wrong-value", where, fmt.Sprintf("%s: AvailableVersions not ascending: %v", where, av))
		}
	}
	var probe []int64
	lo := w.M.First - 3
	if lo < 0 {
		lo = 0
	}
	if w.M.Latest < 64 {
		lo = 0
	}
	for v := lo; v <= w.M.Latest+1; v++ {
		probe = append(probe, v)
	}
	if lo > 0 {
		probe = append(probe, 0, 1)
	}
	someKey := []byte("k")
	for k := range w.Universe {
		someKey = []byte(k)
		break
	}
	for _, v := range probe {
		want := w.M.Has(v)
		if got := w.Tree.VersionExists(v); got != want {
			return w.viol("C14", "C14.exists", "wrong-value", where, fmt.Sprintf("%s: VersionExists(%d)=%v want %v (retained %v)", where, v, got, want, w.M.Versions()))
		}
		if avail[v] != want {
			return w.viol("C14", "C14.available", "wrong-value", where, fmt.Sprintf("%s: AvailableVersions()=%v, version %d listed=%v want %v (retained %v)", where, av, v, avail[v], want, w.M.Versions()))
		}
		_, err := w.Tree.GetImmutable(v)
		if (err == nil) != want {
			return w.viol("C14", "C14.getimmutable", "wrong-value", where, fmt.Sprintf("%s: GetImmutable(%d) err=%v want available=%v", where, v, err, want))
		}
		if !want {
			val, err := w.Tree.GetVersioned(someKey, v)
			if val != nil || err != nil {
				return w.viol("C14", "C14.getversioned", "wrong-value", where, fmt.Sprintf("%s: GetVersioned(%x,%d)=(%x,%v) for a version outside the range", where, someKey, v, val, err))
			}
		}
		if scratch && v > 0 {
			h := w.NewHandle(false, 0) // index disabled: a scratch handle must not write
			_, err := h.LoadVersion(v)
			_ = h.Close()
			if (err == nil) != want {
				return w.viol("C14", "C14.loadversion", "wrong-value", where, fmt.Sprintf("%s: LoadVersion(%d) on a fresh handle err=%v want available=%v (retained %v)", where, v, err, want, w.M.Versions()))
			}
		}
	}
	if len(av) != len(w.M.Committed) {
		return w.viol("C14", "C14.available", "wrong-value", where, fmt.Sprintf("%s: AvailableVersions()=%v want %v", where, av, w.M.Versions()))
	}
	return nil
}
