package checks

import (
	"bytes"
	"encoding/hex"
	"encoding/json"
	"fmt"
	"os"
	"os/exec"
	"path/filepath"
	"sort"
	"strings"

	"verif/drv"
	"verif/ref"
	"verif/sim"
)

// C16: databases in the legacy (pre-1.0) format stay fully usable. The legacy
// database is produced by the real legacy library (iavl v0.20.0, the separate
// legacygen binary) from a seeded, recorded history; the current library then
// opens the raw dump on the simulated disk and continues.

type lgStep struct {
	Op string `json:"op"`
	K  string `json:"k"`
	V  string `json:"v"`
	N  int64  `json:"n"`
}

type lgKV struct {
	K string `json:"k"`
	V string `json:"v"`
}

type lgVersion struct {
	Version int64  `json:"version"`
	Hash    string `json:"hash"`
	Pairs   []lgKV `json:"pairs"`
}

type lgOut struct {
	Dump     []lgKV      `json:"dump"`
	Versions []lgVersion `json:"versions"`
	Latest   int64       `json:"latest"`
	Error    string      `json:"error"`
}

func legacygenPath() string {
	if p := os.Getenv("VERIF_LEGACYGEN"); p != "" {
		return p
	}
	exe, err := os.Executable()
	if err == nil {
		p := filepath.Join(filepath.Dir(exe), "legacygen")
		if _, err := os.Stat(p); err == nil {
			return p
		}
	}
	return filepath.Join(Root(), ".build", "legacygen")
}

func genC16(seed uint64, run int, tier string) *drv.Plan {
	r := sim.Sub(seed, "C16", run)
	// legacy part
	lb := drv.DefaultBias()
	lb.Reopen, lb.Load, lb.Prune, lb.LVFO, lb.DVF, lb.Discard, lb.Recommit, lb.SetNil, lb.BadLoad = 0, 0, 0, 0, 0, 0, 0, 0, 0
	lb.NoEmptyValues = true
	lb.MinVersions, lb.MaxVersions = 1, 7
	lb.InitVers = []int64{0}
	lg := drv.NewGen(r, lb)
	p := &drv.Plan{Engine: "drv", Mode: "legacy"}
	p.Config = lg.Config()
	p.Config.InitVer, p.Config.InitMode = 0, ""
	var steps []drv.Step
	nver := int64(0)
	for _, s := range lg.History() {
		switch s.Op {
		case drv.OpSet, drv.OpRemove, drv.OpSave:
			s.Op = "l." + s.Op
			steps = append(steps, s)
			if s.Op == "l.save" {
				nver++
			}
		}
	}
	// end the legacy part on a commit
	for len(steps) > 0 && steps[len(steps)-1].Op != "l.save" {
		steps = steps[:len(steps)-1]
	}
	id := 2000
	first := int64(1)
	if nver >= 2 && r.Chance(1, 2) {
		// legacy-side deletions, so that orphan records have been processed
		nd := r.Range(1, int(nver)-1)
		deleted := map[int64]bool{}
		for i := 0; i < nd; i++ {
			v := int64(r.Range(1, int(nver)-1))
			if deleted[v] {
				continue
			}
			deleted[v] = true
			id++
			steps = append(steps, drv.Step{ID: id, Op: "l.del", N: v})
		}
		for deleted[first] {
			first++
		}
	}
	// new-format part
	nb := drv.DefaultBias()
	nb.NoEmptyValues = true
	nb.MinVersions, nb.MaxVersions = 1, 6
	nb.NoopVersion = 30
	nb.Prune, nb.LVFO, nb.Reopen = 35, 12, 20
	nb.DVF, nb.Load, nb.Recommit, nb.Discard, nb.SetNil = 0, 0, 0, 5, 0
	nb.InitVers = []int64{0}
	ng := drv.NewGen(r, nb)
	if nver > 0 {
		ng.StartAt(first, nver, 3000)
	}
	p.Steps = append(steps, ng.History()...)
	return p
}

func unhexOr(s string) []byte {
	b, _ := hex.DecodeString(s)
	if b == nil {
		b = []byte{}
	}
	return b
}

// legacyWorld builds the database the plan's "l." steps describe with the real
// legacy library (legacygen), confirms the reference models against what that
// library reports, and returns a world (not yet opened) on a simulated disk
// holding the raw legacy image, with the models at the legacy latest version.
// A nil world means the plan has no committed legacy version.
func legacyWorld(p *drv.Plan, out *Out) (w *drv.World, rest []drv.Step, legacyLatest int64, lo lgOut, img *sim.SimDB) {
	var legacy []lgStep
	M, T := ref.NewVMap(), ref.NewTree()
	universe := map[string]bool{}
	for _, s := range p.Steps {
		if !strings.HasPrefix(s.Op, "l.") {
			rest = append(rest, s)
			continue
		}
		switch s.Op {
		case "l.set":
			legacy = append(legacy, lgStep{Op: "set", K: hex.EncodeToString(s.K), V: hex.EncodeToString(s.V)})
			M.Set(s.K, s.V)
			T.Set(s.K, s.V)
			universe[string(s.K)] = true
		case "l.remove":
			legacy = append(legacy, lgStep{Op: "remove", K: hex.EncodeToString(s.K)})
			M.Remove(s.K)
			T.Remove(s.K)
			universe[string(s.K)] = true
		case "l.save":
			legacy = append(legacy, lgStep{Op: "save"})
			M.Commit()
			T.Commit()
		case "l.del":
			legacy = append(legacy, lgStep{Op: "ldel", N: s.N})
			if s.N != M.Latest && M.Has(s.N) {
				delete(M.Committed, s.N)
				delete(M.Written, s.N)
				delete(T.Roots, s.N)
				out.Probes["legacy.deleted-version"]++
			}
		}
	}
	if M.Latest == 0 {
		return nil, rest, 0, lo, nil
	}
	M.Discard()
	T.Discard()
	if vs := M.Versions(); len(vs) > 0 {
		M.First = vs[0]
	}
	// R4: the real legacy library
	in, _ := json.Marshal(map[string]interface{}{"fast": p.Config.Fast && p.Run%2 == 0, "steps": legacy})
	cmd := exec.Command(legacygenPath())
	cmd.Stdin = bytes.NewReader(in)
	var so, se bytes.Buffer
	cmd.Stdout, cmd.Stderr = &so, &se
	if err := cmd.Run(); err != nil {
		panic(fmt.Sprintf("legacygen failed: %v: %s", err, se.String()))
	}
	if err := json.Unmarshal(so.Bytes(), &lo); err != nil || lo.Error != "" {
		panic(fmt.Sprintf("legacygen: %v %s", err, lo.Error))
	}
	// R2 is confirmed against R4 on the legacy part before it is trusted
	if len(lo.Versions) != len(M.Committed) || lo.Latest != M.Latest {
		panic(fmt.Sprintf("model and legacy library disagree on the versions: legacy %d (latest %d), model %v", len(lo.Versions), lo.Latest, M.Versions()))
	}
	for _, lv := range lo.Versions {
		want, ok := M.Committed[lv.Version]
		if !ok {
			panic(fmt.Sprintf("legacy library reports version %d, the model does not have it", lv.Version))
		}
		if hex.EncodeToString(T.RootHash(lv.Version)) != lv.Hash {
			panic(fmt.Sprintf("R2 and the legacy library disagree on the hash of version %d: %x vs %s", lv.Version, T.RootHash(lv.Version), lv.Hash))
		}
		if len(lv.Pairs) != want.Len() {
			panic(fmt.Sprintf("R1 and the legacy library disagree on the contents of version %d", lv.Version))
		}
		for _, kv := range lv.Pairs {
			v, ok := want.Get(unhexOr(kv.K))
			if !ok || !bytes.Equal(v, unhexOr(kv.V)) {
				panic(fmt.Sprintf("R1 and the legacy library disagree on the contents of version %d", lv.Version))
			}
		}
	}
	legacyLatest = M.Latest
	// the current library opens the raw dump
	img = sim.NewSimDB()
	orphans := 0
	for _, kv := range lo.Dump {
		k := unhexOr(kv.K)
		img.RawSet(k, unhexOr(kv.V))
		if len(k) > 0 && k[0] == 'o' {
			orphans++
		}
	}
	if orphans > 0 {
		out.Probes["legacy.orphan-records"]++
	}
	img = img.Fork() // the dump is the initial contents of the disk, not a write
	w = drv.NewWorld(p.Config)
	w.UseSim(img)
	w.M, w.T = M, T
	for k := range universe {
		w.Universe[k] = true
	}
	return w, rest, legacyLatest, lo, img
}

func execC16(p *drv.Plan) *Out {
	out := &Out{Evals: 1, Probes: map[string]int{}, Stats: map[string]int{}}
	out.Sample = p.Compact()
	w, rest, legacyLatest, lo, img := legacyWorld(p, out)
	if w == nil {
		return out
	}
	audits := 0
	audit := func(w *drv.World, where string) *drv.Violation {
		audits++
		keys := w.ProbeKeys()
		bad := func(sym, detail string) *drv.Violation {
			return &drv.Violation{Prop: "C16", Oracle: "C16.remaining-versions", Symptom: sym, Class: where, Detail: detail}
		}
		if lv, err := w.Tree.GetLatestVersion(); err != nil || lv != w.M.Latest {
			return bad("wrong-value", fmt.Sprintf("%s: GetLatestVersion()=(%d,%v) want %d", where, lv, err, w.M.Latest))
		}
		avail := map[int64]bool{}
		for _, v := range w.Tree.AvailableVersions() {
			avail[int64(v)] = true
		}
		for _, ver := range w.M.Versions() {
			cls := "new"
			if ver <= legacyLatest && ver <= w.M.Latest {
				cls = "legacy"
			}
			if !w.Tree.VersionExists(ver) || !avail[ver] {
				return bad("version-missing", fmt.Sprintf("%s: %s version %d is meant to remain but VersionExists=%v, AvailableVersions=%v", where, cls, ver, w.Tree.VersionExists(ver), w.Tree.AvailableVersions()))
			}
			if v := w.AuditVersion("C16", "C16.remaining-versions", ver, keys); v != nil {
				v.Class = where + "/" + cls
				return v
			}
			it, err := w.Tree.GetImmutable(ver)
			if err != nil {
				return bad("version-unreadable", err.Error())
			}
			if h := it.Hash(); !bytes.Equal(h, w.T.RootHash(ver)) {
				return bad("hash-mismatch", fmt.Sprintf("%s: %s version %d has hash %x, the legacy library / reference say %x", where, cls, ver, h, w.T.RootHash(ver)))
			}
		}
		if v := w.AuditWorking("C16", "C16.working", keys); v != nil {
			v.Class = where
			return v
		}
		return nil
	}
	hooks := drv.Hooks{Prop: "C16",
		Prepare: func(w *drv.World) {},
		After: func(w *drv.World, s drv.Step) *drv.Violation {
			if !isStructural(s.Op) {
				return nil
			}
			return audit(w, "after-"+s.Op)
		},
	}
	// pruning below the boundary may be deferred by the library ("it will delete
	// the legacy versions at once"): versions <= n are then not meant to remain,
	// but the statement does not require them to be gone
	var steps []drv.Step
	for _, s := range rest {
		steps = append(steps, s)
	}
	resaved := map[int64]map[string]bool{}
	collided := false
	limboMax := int64(0)
	runSteps := func() *drv.Result {
		res := &drv.Result{W: w}
		if err := w.Open(); err != nil {
			res.Vio = &drv.Violation{Prop: "C16", Oracle: "C16.open", Symptom: "load-fails", Class: "open", Detail: fmt.Sprintf("opening the legacy database: %v", err)}
			return res
		}
		if v := audit(w, "after-open"); v != nil {
			res.Vio = v
			return res
		}
		for _, s := range steps {
			var v *drv.Violation
			if s.Op == drv.OpSave {
				// An unchanged commit on a legacy root re-saves that node in the
				// new layout under (version it was created in, nonce 0). Two
				// different legacy nodes created in the same version share that
				// key: the second re-save overwrites the first (listed finding).
				if r := w.T.Work; r != nil && r.Ver != 0 && r.Ver <= legacyLatest {
					if resaved[r.Ver] == nil {
						resaved[r.Ver] = map[string]bool{}
					}
					resaved[r.Ver][hex.EncodeToString(r.Hash)] = true
					if len(resaved[r.Ver]) >= 2 {
						collided = true
						out.Probes["legacy.root-key-collision"]++
					}
				}
			}
			if s.Op == drv.OpPrune {
				v = w.Guard("C16", "C16.step", "prune", func() *drv.Violation {
					n := s.N
					if n >= w.M.Latest || n >= w.M.Cur {
						return nil
					}
					if n < legacyLatest {
						out.Probes["prune.below-boundary"]++
						if n > limboMax {
							limboMax = n // deferred: versions <= n may or may not be gone
						}
					} else if n == legacyLatest {
						out.Probes["prune.at-boundary"]++
					} else {
						out.Probes["prune.above-boundary"]++
					}
					if err := w.Tree.DeleteVersionsTo(n); err != nil {
						return &drv.Violation{Prop: "C16", Oracle: "C16.step", Symptom: "error-on-legal-request", Class: "prune", Detail: fmt.Sprintf("DeleteVersionsTo(%d): %v (legacy latest %d, retained %v)", n, err, legacyLatest, w.M.Versions())}
					}
					for _, v := range w.M.Versions() {
						if v <= n {
							delete(w.M.Committed, v)
							delete(w.M.Written, v)
							delete(w.T.Roots, v)
						}
					}
					if vs := w.M.Versions(); len(vs) > 0 {
						w.M.First = vs[0]
					}
					return nil
				})
			} else {
				if s.Op == drv.OpLVFO && s.N <= legacyLatest && w.M.Has(s.N) {
					out.Probes["rollback.to-legacy-version"]++
				}
				if (s.Op == drv.OpLVFO || s.Op == drv.OpDVF || s.Op == drv.OpLoad || s.Op == drv.OpBadLoad) && !w.M.Has(s.N) && s.N <= limboMax {
					// the target was requested for deletion below the legacy
					// boundary, which the library defers: it may or may not be
					// there, so a request naming it has no defined answer
					out.Probes["step.on-deferred-deletion-skipped"]++
					res.Steps++
					continue
				}
				v = w.Apply(s)
			}
			res.Steps++
			if v == nil {
				v = w.Guard("C16", "C16.oracle", "after-step", func() *drv.Violation { return hooks.After(w, s) })
			}
			if v != nil {
				if v.Prop != "C16" {
					v = relabel(v, "C16", "legacy-db")
				}
				if collided {
					v.Class = "ctx[legacy-root-key-collision]" + v.Class
				}
				v.StepID = s.ID
				res.Vio = v
				return res
			}
		}
		return res
	}
	res := runSteps()
	if res.Vio != nil {
		out.Violations = append(out.Violations, res.Vio)
	}
	var tr drv.Tracer
	tr.Add(res.Steps, audits, img.Digest())
	out.Trace = fmt.Sprintf("%016x", tr.Sum())
	for k, v := range w.P {
		out.Probes[k] += v
	}
	keys := make([]string, 0, len(out.Probes))
	for k := range out.Probes {
		keys = append(keys, k)
	}
	sort.Strings(keys)
	w.Cleanup()
	out.Stats["audits"] = audits
	out.Stats["legacy_versions"] = len(lo.Versions)
	out.NonTrivial = audits >= 2 && len(lo.Versions) >= 1
	return out
}

func init() {
	Register(&Check{ID: "C16", Level: "exploration", Engine: "drv", QuickRuns: 1500, ThoroughS: 480, Workers: 12,
		Components: map[string]string{
			"legacy database":                      "produced by the real legacy library (iavl v0.20.0 on cometbft-db MemDB) in the separate legacygen binary",
			"current tree/nodedb/pruning/rollback": "real, on the simulated disk loaded with the raw legacy dump",
			"oracle":                               "contents and hashes the legacy library itself reported (R4); R1/R2 replay, confirmed against R4 on the legacy part before being trusted for the new versions",
		},
		Assumptions: []string{
			"a DeleteVersionsTo request below the legacy/new boundary may be deferred by the library; the statement only demands that versions meant to remain are preserved, so versions <= n are simply not judged afterwards",
			"legacy histories are generated by the real legacy library at run time, so they are seeded and recorded (the checked-in legacydump uses crypto-random keys)",
			"empty values excluded",
		},
		Rule: "one evaluation = a seeded legacy history (1-7 versions, with or without legacy-side deletions of arbitrary non-latest versions) executed by the real legacy library, whose raw dump is loaded into the simulated disk; the current library opens it and a generated new-format history follows: commits, commits without writes on a legacy root, DeleteVersionsTo below / at / above the boundary, LoadVersionForOverwriting to legacy and new versions, reopenings with any fast-index setting; after the open and after every structural step every version meant to remain must exist (VersionExists, AvailableVersions) with exactly the contents and root hash the legacy library reported (legacy versions) or the reference computes (new versions), and every new commit hash must be canonical; non-trivial = >=2 audits on a database with >=1 legacy version",
		Gen:  genC16,
		Exec: execC16})
}
