package checks

import (
	"bytes"
	"crypto/sha256"
	"encoding/binary"
	"fmt"
	"runtime"
	"time"

	"github.com/cosmos/iavl"
	"github.com/cosmos/iavl/fastnode"

	"verif/drv"
	"verif/ref"
	"verif/sim"
)

// C13: on-disk format is stable and every decoder is total. Four modes:
//   a  library -> independent decoder (lock-step format audit after every structural step)
//   b  independent encoder -> library (a database image written by R3 is opened and continued)
//   c1 decoder totality on mutated / random byte strings (direct calls)
//   c2 decoder totality on corrupted stored entries (simulated disk corruption)

func c13Bias(tier string) drv.Bias {
	b := drv.DefaultBias()
	b.Prune, b.LVFO, b.DVF, b.Reopen, b.ExpImp = 20, 6, 2, 12, 0
	b.NoopVersion = 20
	b.Load, b.Recommit = 0, 0
	b.InitVers = []int64{0, 0, 3, 1 << 40}
	if tier == "thorough" {
		b.MaxVersions = 25
		b.MediumMax = 64
	}
	return b
}

func genC13(seed uint64, run int, tier string) *drv.Plan {
	r := sim.Sub(seed, "C13-mode", run)
	b := c13Bias(tier)
	mode := "a"
	switch x := r.Intn(20); {
	case x < 9:
		mode = "a"
	case x < 13:
		mode = "b"
		b.Prune, b.LVFO, b.DVF, b.Discard = 15, 5, 0, 5
		b.NoEmptyValues = true
	case x < 17:
		mode = "c1"
		b.Prune, b.LVFO, b.DVF, b.Reopen = 0, 0, 0, 0
		b.MaxVersions = 4
	default:
		mode = "c2"
		b.Prune, b.LVFO, b.DVF = 8, 0, 0
		b.MaxVersions = 5
	}
	p := genPlan("C13", seed, run, b)
	p.Mode = mode
	if mode == "b" || mode == "c2" {
		// end clean
		for len(p.Steps) > 0 {
			op := p.Steps[len(p.Steps)-1].Op
			if op == drv.OpSet || op == drv.OpRemove || op == drv.OpSetNil {
				p.Steps = p.Steps[:len(p.Steps)-1]
				continue
			}
			break
		}
	}
	return p
}

func execC13(p *drv.Plan) *Out {
	switch p.Mode {
	case "b":
		return execC13b(p)
	case "c1":
		return execC13c1(p)
	case "c2":
		return execC13c2(p)
	}
	out := execStore("C13", true)(p)
	out.Probes["mode.a"]++
	return out
}

// ------------------------------------------------------------------ mode b

// WriteImage writes a complete database image of the model's retained
// versions in the pinned format with the independent encoder.
func WriteImage(d *sim.SimDB, M *ref.VMap, T *ref.Tree, withFast bool, oldRefs bool) {
	done := map[*ref.TNode]bool{}
	skey := func(n *ref.TNode) []byte {
		nonce := n.Nonce
		if nonce == 1 && !M.Has(n.Ver) {
			nonce = 0 // the root of a version that no longer exists is stored under nonce 0
		}
		return ref.SKey(n.Ver, nonce)
	}
	var put func(n *ref.TNode)
	put = func(n *ref.TNode) {
		if n == nil || done[n] {
			return
		}
		done[n] = true
		dn := &ref.DNode{Height: n.H, Size: n.N, Key: n.Key}
		if n.IsLeaf() {
			dn.Value = n.Value
		} else {
			dn.Hash = n.Hash
			dn.LVer, dn.LNonce = n.Left.Ver, n.Left.Nonce
			dn.RVer, dn.RNonce = n.Right.Ver, n.Right.Nonce
			put(n.Left)
			put(n.Right)
		}
		d.RawSet(skey(n), ref.EncodeNode(dn))
	}
	for _, v := range M.Versions() {
		root := T.Roots[v]
		switch {
		case root == nil:
			d.RawSet(ref.SKey(v, 1), []byte{})
		case root.Ver == v:
			put(root)
		default:
			put(root)
			if oldRefs && root.Nonce == 1 {
				// the short reference form (prefix + version) written before lazy
				// pruning existed: it names the root (version, 1)
				old := make([]byte, 9)
				old[0] = 's'
				binary.BigEndian.PutUint64(old[1:], uint64(root.Ver))
				d.RawSet(ref.SKey(v, 1), old)
			} else {
				d.RawSet(ref.SKey(v, 1), ref.RefRootValue(root.Ver, root.Nonce))
			}
		}
	}
	if withFast && M.Latest > 0 {
		for _, pr := range M.Committed[M.Latest].Pairs() {
			d.RawSet(ref.FKey(pr.K), ref.EncodeFast(M.Latest, pr.V))
		}
		d.RawSet(ref.StorageVersionKey, ref.Label(M.Latest))
	}
}

func execC13b(p *drv.Plan) *Out {
	// the history is executed once to obtain the models (the real tree of this
	// pass is checked by the step oracles only)
	r0 := drv.RunPlan(p, p.Config, drv.Hooks{Prop: "C13"})
	out := stdOut(p, r0)
	out.Probes["mode.b"]++
	if r0.Vio != nil || r0.Foreign != nil || !r0.W.Clean() || r0.W.M.Latest == 0 {
		return out
	}
	M, T := r0.W.M, r0.W.T
	r := drv.SubRand(p, "c13b")
	withFast := r.Chance(1, 2)
	oldRefs := r.Chance(1, 3)
	img := sim.NewSimDB()
	WriteImage(img, M, T, withFast, oldRefs)
	if oldRefs {
		out.Probes["image.short-reference-roots"]++
	}
	w := drv.NewWorld(p.Config)
	w.UseSim(img)
	w.Fast = withFast || r.Chance(1, 3)
	w.Cache = r.Pick(0, 2, 1000)
	w.M, w.T = M.Clone(), T.Clone()
	for k := range r0.W.Universe {
		w.Universe[k] = true
	}
	st := &drv.ProofStats{}
	hooks := drv.Hooks{Prop: "C13",
		Prepare: func(w *drv.World) {},
		After: func(w *drv.World, s drv.Step) *drv.Violation {
			if s.Op != drv.OpSave {
				return nil
			}
			return relabel(w.AuditStore("C13", true, true), "C13", "commit-on-image")
		},
	}
	// open the externally encoded database and audit it
	res := drv.RunOn(w, nil, drv.Hooks{Prop: "C13", End: func(w *drv.World) *drv.Violation {
		if v := relabel(w.AuditVersions("image", true), "C13", "image"); v != nil {
			return v
		}
		if v := relabel(w.AuditAll("C13", "C13.image-reads"), "C13", "image"); v != nil {
			return v
		}
		if v := relabel(w.AuditHashes(), "C13", "image"); v != nil {
			return v
		}
		if v := relabel(w.AuditAllProofs(drv.SubRand(p, "c13b-proofs"), st), "C13", "image"); v != nil {
			return v
		}
		// then commit on top of it canonically
		id := 800000
		for i := 0; i < 3; i++ {
			id++
			k := []byte(fmt.Sprintf("img%d", i))
			for u := range w.Universe {
				if r.Chance(1, 3) {
					k = []byte(u)
					break
				}
			}
			for _, st := range []drv.Step{{ID: id, Op: drv.OpSet, K: k, V: []byte(fmt.Sprintf("i%d", id))}, {ID: id + 100, Op: drv.OpSave}} {
				if v := w.Apply(st); v != nil {
					return relabel(v, "C13", "commit-on-image")
				}
				if v := hooks.After(w, st); v != nil {
					return v
				}
			}
		}
		if v := relabel(w.AuditAll("C13", "C13.image-reads"), "C13", "commit-on-image"); v != nil {
			return v
		}
		return relabel(w.AuditHashes(), "C13", "commit-on-image")
	}})
	if res.Vio != nil {
		out.Violations = append(out.Violations, res.Vio)
	} else if res.Foreign != nil {
		out.Violations = append(out.Violations, relabel(res.Foreign, "C13", "image"))
	}
	w.Cleanup()
	out.Stats["images_opened"] = 1
	out.Stats["proofs_verified"] = st.Positive
	out.NonTrivial = true
	if withFast {
		out.Probes["image.with-index"]++
	}
	return out
}

// ----------------------------------------------------------------- mode c1

func mutate(r *sim.Rand, b []byte) ([]byte, string) {
	c := append([]byte{}, b...)
	switch r.Intn(8) {
	case 0:
		if len(c) > 0 {
			i := r.Intn(len(c) * 8)
			c[i/8] ^= 1 << (i % 8)
		}
		return c, "flip"
	case 1:
		if len(c) > 0 {
			c = c[:r.Intn(len(c))]
		}
		return c, "trunc"
	case 2:
		n := r.Range(1, 20)
		for i := 0; i < n; i++ {
			c = append(c, byte(r.Intn(256)))
		}
		return c, "ext"
	case 3:
		// inflate a length / varint field: overwrite a position with a huge uvarint
		var big [binary.MaxVarintLen64]byte
		n := binary.PutUvarint(big[:], uint64(1)<<uint(r.Range(20, 63)))
		pos := 0
		if len(c) > 0 {
			pos = r.Intn(len(c))
		}
		c = append(append(append([]byte{}, c[:pos]...), big[:n]...), c[pos:]...)
		return c, "inflate"
	case 4:
		n := r.Range(0, 40)
		c = make([]byte, n)
		for i := range c {
			c[i] = byte(r.Intn(256))
		}
		return c, "random"
	case 5:
		if len(c) > 2 {
			c = c[:r.Range(1, len(c)-1)]
		}
		n := r.Range(1, 12)
		for i := 0; i < n; i++ {
			c = append(c, byte(r.Intn(256)))
		}
		return c, "prefix+garbage"
	case 6:
		for i := range c {
			if r.Chance(1, 6) {
				c[i] = 0xff
			}
		}
		return c, "ff-fill"
	default:
		return []byte{0xff, 0xff, 0xff, 0xff, 0xff, 0xff, 0xff, 0xff, 0xff, 0xff, 0x01}[:r.Range(0, 11)], "overlong-varint"
	}
}

func execC13c1(p *drv.Plan) *Out {
	out := &Out{Evals: 1, Probes: map[string]int{"mode.c1": 1}, Stats: map[string]int{}, Faults: map[string]int{}}
	out.Sample = "c1: " + p.Compact()
	// valid encodings from a model-only execution of the plan's writes
	T := ref.NewTree()
	for _, s := range p.Steps {
		switch s.Op {
		case drv.OpSet:
			T.Set(s.K, s.V)
		case drv.OpRemove:
			T.Remove(s.K)
		case drv.OpSave:
			T.Commit()
		}
	}
	T.Commit()
	var seeds [][]byte
	reach := map[ref.NodeID]*ref.TNode{}
	for _, root := range T.Roots {
		ref.Reachable(root, reach)
	}
	for _, n := range reach {
		dn := &ref.DNode{Height: n.H, Size: n.N, Key: n.Key, Version: n.Ver}
		if n.IsLeaf() {
			dn.Value = n.Value
		} else {
			dn.Hash = n.Hash
			dn.LVer, dn.LNonce, dn.RVer, dn.RNonce = n.Left.Ver, n.Left.Nonce, n.Right.Ver, n.Right.Nonce
			dn.LHash, dn.RHash = n.Left.Hash, n.Right.Hash
		}
		seeds = append(seeds, ref.EncodeNode(dn), ref.EncodeLegacyNode(dn))
		if n.IsLeaf() {
			seeds = append(seeds, ref.EncodeFast(n.Ver, n.Value))
		}
		if len(seeds) > 60 {
			break
		}
	}
	seeds = append(seeds, ref.RefRootValue(3, 1), []byte{}, ref.Label(7))
	// deterministic order
	sortBytes(seeds)
	r := drv.SubRand(p, "c13c1")
	nk := ref.SKey(5, 2)[1:]
	hash := bytes.Repeat([]byte{0xab}, 32)
	n := 400
	var tr drv.Tracer
	type decoder struct {
		name string
		f    func(b []byte) error
	}
	decs := []decoder{
		{"MakeNode", func(b []byte) error { _, err := iavl.MakeNode(nk, b); return err }},
		{"MakeLegacyNode", func(b []byte) error { _, err := iavl.MakeLegacyNode(hash, b); return err }},
		{"DeserializeNode", func(b []byte) error { _, err := fastnode.DeserializeNode([]byte("k"), b); return err }},
		{"DecodeBytes", func(b []byte) error { _, _, err := iavl.VerifDecodeBytes(b); return err }},
		{"DecodeUvarint", func(b []byte) error { _, _, err := iavl.VerifDecodeUvarint(b); return err }},
		{"DecodeVarint", func(b []byte) error { _, _, err := iavl.VerifDecodeVarint(b); return err }},
	}
	var ms runtime.MemStats
	for i := 0; i < n; i++ {
		in, kind := mutate(r, seeds[r.Intn(len(seeds))])
		out.Faults["corrupt."+kind]++
		for _, d := range decs {
			d := d
			var err error
			runtime.ReadMemStats(&ms)
			before := ms.TotalAlloc
			t0 := time.Now()
			var pv *drv.Violation
			func() {
				defer func() {
					if rec := recover(); rec != nil {
						pv = &drv.Violation{Prop: "C13", Oracle: "C13.decoder-total", Symptom: "panic", Class: d.name, Detail: fmt.Sprintf("%s(%x) panicked: %v", d.name, in, rec)}
					}
				}()
				err = d.f(in)
			}()
			el := time.Since(t0)
			runtime.ReadMemStats(&ms)
			delta := ms.TotalAlloc - before
			out.Stats["decoder_calls"]++
			if err != nil {
				out.Stats["decoder_errors"]++
			}
			tr.Add(d.name, err != nil, pv != nil)
			switch {
			case pv != nil:
				out.Violations = append(out.Violations, pv)
				return out
			case el > 5*time.Second:
				// wall-clock under load: only a decoder that is slow twice is slow
				t1 := time.Now()
				func() {
					defer func() { _ = recover() }()
					_ = d.f(in)
				}()
				if time.Since(t1) <= 5*time.Second {
					out.Probes["c1.slow-sample-noisy"]++
					continue
				}
				out.Violations = append(out.Violations, &drv.Violation{Prop: "C13", Oracle: "C13.decoder-total", Symptom: "hang", Class: d.name, Detail: fmt.Sprintf("%s(%x) took %v", d.name, in, el)})
				return out
			case delta > uint64(64*len(in)+1<<20):
				// TotalAlloc is process-wide: background allocation (GC work, a
				// goroutine left over from an earlier run) inflates one sample.
				// What the decoder itself allocates is the same on every call:
				// the smallest of three more samples decides.
				for k := 0; k < 3 && delta > uint64(64*len(in)+1<<20); k++ {
					runtime.ReadMemStats(&ms)
					b0 := ms.TotalAlloc
					func() {
						defer func() { _ = recover() }()
						_ = d.f(in)
					}()
					runtime.ReadMemStats(&ms)
					if d2 := ms.TotalAlloc - b0; d2 < delta {
						delta = d2
					}
				}
				if delta <= uint64(64*len(in)+1<<20) {
					out.Probes["c1.alloc-sample-noisy"]++
					continue
				}
				out.Violations = append(out.Violations, &drv.Violation{Prop: "C13", Oracle: "C13.decoder-total", Symptom: "alloc-blowup", Class: d.name, Detail: fmt.Sprintf("%s(%x) allocated %d bytes for %d input bytes", d.name, in, delta, len(in))})
				return out
			}
		}
	}
	out.Evals = out.Stats["decoder_calls"]
	out.NonTrivial = out.Stats["decoder_errors"] > 0
	out.Trace = fmt.Sprintf("%016x", tr.Sum())
	return out
}

func sortBytes(bs [][]byte) {
	for i := 1; i < len(bs); i++ {
		for j := i; j > 0 && bytes.Compare(bs[j], bs[j-1]) < 0; j-- {
			bs[j], bs[j-1] = bs[j-1], bs[j]
		}
	}
}

// ----------------------------------------------------------------- mode c2

func execC13c2(p *drv.Plan) *Out {
	r0 := drv.RunPlan(p, p.Config, drv.Hooks{Prop: "C13"})
	out := stdOut(p, r0)
	out.Probes["mode.c2"]++
	out.Faults = map[string]int{}
	if r0.Vio != nil || r0.Foreign != nil || r0.W.Sim == nil || !r0.W.Clean() || r0.W.M.Latest == 0 {
		return out
	}
	base := r0.W.Sim.Fork()
	M := r0.W.M
	latest := M.Latest
	keys := r0.W.ProbeKeys()
	r := drv.SubRand(p, "c13c2")
	var tr drv.Tracer
	for i := 0; i < 24; i++ {
		d := base.Fork()
		// choose what to corrupt
		var target []byte
		what := []string{"root", "rootmarker", "fast", "label", "leaf", "legacyroot"}[r.Intn(6)]
		traverse := false
		switch what {
		case "root":
			target = ref.SKey(latest, 1)
		case "rootmarker":
			vers := M.Versions()
			target = ref.SKey(vers[r.Intn(len(vers))], 1)
		case "label":
			target = ref.StorageVersionKey
			traverse = true
		case "legacyroot":
			// the root entry of a version in the legacy layout: r<version> -> root
			// hash. One version's new-layout root entry is replaced by a legacy
			// one (a 32-byte hash no node answers to: "value missing" is the right
			// answer), which is then corrupted like every other entry.
			vers := M.Versions()
			ver := vers[r.Intn(len(vers))]
			d.RawDelete(ref.SKey(ver, 1))
			target = ref.LegacyRootKey(ver)
			hsh := sha256.Sum256([]byte(fmt.Sprintf("legacy-root-%d", ver)))
			d.RawSet(target, hsh[:])
		case "fast", "leaf":
			var cands [][]byte
			for _, e := range d.Dump() {
				if what == "fast" && e.K[0] == 'f' {
					cands = append(cands, e.K)
				}
				if what == "leaf" && e.K[0] == 's' && len(e.V) > 0 && e.V[0] == 0 {
					cands = append(cands, e.K)
				}
			}
			if len(cands) == 0 {
				continue
			}
			target = cands[r.Intn(len(cands))]
			traverse = true
		}
		val, ok := d.RawGet(target)
		if !ok {
			continue
		}
		if what == "root" || what == "rootmarker" {
			// traversing below a corrupted inner node is not judged (a flipped
			// child pointer may create a cycle); a leaf or marker is safe to walk into
			traverse = len(val) == 0 || val[0] == 0 || val[0] == 's'
		}
		mut, kind := mutate(r, val)
		if kind == "random" && len(mut) == 0 && (what == "fast" || what == "leaf") {
			mut = []byte{0x01}
		}
		d.RawSet(target, mut)
		out.Faults["corrupt."+what+"."+kind]++
		out.Stats["corruptions"]++
		cls := what
		fast := r.Chance(1, 2)
		if !traverse {
			// a handle with the index enabled on a store without a matching index
			// builds it on Load, which walks the whole latest tree (and would
			// follow the flipped child pointer round and round as well)
			fast = false
		}
		done := make(chan *drv.Violation, 1)
		go func() {
			var v *drv.Violation
			func() {
				defer func() {
					if rec := recover(); rec != nil {
						buf := make([]byte, 1<<14)
						n := runtime.Stack(buf, false)
						v = &drv.Violation{Prop: "C13", Oracle: "C13.decoder-total", Symptom: "panic", Class: "disk/" + cls, Detail: fmt.Sprintf("stored %s entry %x corrupted (%s) to %x: panic: %v\n%s", what, target, kind, mut, rec, buf[:n])}
					}
				}()
				w := drv.NewWorld(p.Config)
				w.UseSim(d)
				h := w.NewHandle(fast, 0)
				defer h.Close()
				_, _ = h.Load()
				_ = h.VersionExists(latest)
				for _, ver := range M.Versions() {
					it, err := h.GetImmutable(ver)
					if err == nil && traverse {
						k := keys[r.Intn(len(keys))]
						_, _ = it.Get(k)
						_, _ = it.Has(k)
					}
					if traverse {
						_, _ = h.GetVersioned(keys[r.Intn(len(keys))], ver)
					}
				}
				h2 := w.NewHandle(fast, 0)
				defer h2.Close()
				_, _ = h2.LoadVersion(latest)
				if traverse {
					_, _ = h2.Get(keys[r.Intn(len(keys))])
				}
			}()
			done <- v
		}()
		select {
		case v := <-done:
			tr.Add(what, kind, v != nil)
			if v != nil {
				out.Violations = append(out.Violations, v)
				return out
			}
		case <-time.After(20 * time.Second):
			out.Tainted = true // the goroutine is still spinning: no further run in this process
			out.Violations = append(out.Violations, &drv.Violation{Prop: "C13", Oracle: "C13.decoder-total", Symptom: "hang", Class: "disk/" + cls, Detail: fmt.Sprintf("stored %s entry %x corrupted (%s) to %x: decode path did not return within 20 s", what, target, kind, mut)})
			return out
		}
	}
	out.Evals = out.Stats["corruptions"]
	if out.Evals < 1 {
		out.Evals = 1
	}
	out.NonTrivial = out.Stats["corruptions"] > 0
	out.Trace = fmt.Sprintf("%s-%016x", out.Trace, tr.Sum())
	return out
}

func init() {
	Register(&Check{ID: "C13", Level: "exploration", Engine: "drv", QuickRuns: 2500, ThoroughS: 480, Components: stdComponents,
		Assumptions: []string{
			"the pinned format is what R3 (ref/codec.go) encodes and decodes; R3 was written from docs/node and the byte layouts, with its own varint code",
			"decoder totality is sampled (mutations of valid encodings and random bytes), not proved for all byte strings",
			"wrong data after corrupting a value payload is not a violation (the format has no checksums); traversal below a corrupted inner node is not judged",
			"reference models R1/R2 are the specification of contents and hashes",
		},
		Rule: "modes by run: a (45%) lock-step history, after every structural step the raw disk is decoded with the independent codec and every stored node must equal the reference node field by field (key, value, height, size, version, hash, child links, pre-order nonces, root markers) and re-encode byte for byte; b (20%) the independent encoder writes a complete database image (nodes, reference roots, empty roots, re-keyed roots of deleted versions, with or without fast index) which iavl opens: all version APIs, reads, hashes, proofs must match and three more commits on top must be canonical and conserving; c1 (20%) 400 mutated/random inputs per run to MakeNode, MakeLegacyNode, fastnode.DeserializeNode and the re-exported varint/bytes decoders: no panic, no hang, allocation bounded by a multiple of the input; c2 (15%) 24 corruptions per run of stored root nodes, root markers, fast nodes, the storage_version label and leaves on the simulated disk followed by Load/GetImmutable/GetVersioned/Get/LoadVersion/VersionExists: no panic, no hang; non-trivial = >=2 audits (a), an opened image (b), >=1 decoder error (c1), >=1 corruption (c2)",
		Gen:  genC13,
		Exec: execC13})
}
