package checks

import (
	"bytes"
	"errors"
	"fmt"
	"os"
	"sort"
	"strings"
	"sync/atomic"
	"time"

	ics23 "github.com/cosmos/ics23/go"

	"github.com/cosmos/iavl"

	"verif/drv"
	"verif/ref"
	"verif/sim"
)

// C06: committed versions can be read concurrently with the writer, race-free.
//
// One writer task executes the plan's write steps; reader tasks execute their
// "r.read" steps on immutable trees of committed versions; iavl's own pruner
// and exporter goroutines are tasks too. The Scheduler decides who runs at
// every yield point. Everything a reader compares against is computed BEFORE
// the tasks start (the writer's history is literal in the plan), so the
// harness shares no memory between tasks except a few integers accessed
// through race-detector-invisible atomics.

const maxVers = 64

type c06Shared struct {
	latest  int64 // latest committed version (published by the writer after SaveVersion returned)
	floor   int64 // versions below floor may be gone
	leases  [maxVers + 2]int64
	pins    [maxVers + 2]int64
	stop    int32
	readers int32 // readers still running
	// probe counters (plain maps must not be shared between tasks)
	pinnedReq, exportPinned, doubleClose, latePins, bracketPrunes int64
	// commitSeq is odd while the writer is inside SaveVersion (commit in flight)
	commitSeq int64
	// saveLo is the length of the physical write log when the last SaveVersion was called
	saveLo int64
	// readers of the version AHEAD of the latest one the writer announced
	aheadNotYet, aheadVisible, aheadEarly int64
	pruneToLatest                         int64
	bundleCut                             int64
	// finished is a real (race-detector-visible) release/acquire pair: the
	// readers' last action and the writer's last check before it closes the
	// tree, as an application that closes its store after its queries ended.
	finished int32
}

//go:norace
func (h *c06Shared) load(p *int64) int64 {
	sim.RaceDisable()
	v := atomic.LoadInt64(p)
	sim.RaceEnable()
	return v
}

//go:norace
func (h *c06Shared) store(p *int64, v int64) {
	sim.RaceDisable()
	atomic.StoreInt64(p, v)
	sim.RaceEnable()
}

//go:norace
func (h *c06Shared) add(p *int64, d int64) {
	sim.RaceDisable()
	atomic.AddInt64(p, d)
	sim.RaceEnable()
}

//go:norace
func (h *c06Shared) stopped() bool {
	sim.RaceDisable()
	v := atomic.LoadInt32(&h.stop)
	sim.RaceEnable()
	return v != 0
}

//go:norace
func (h *c06Shared) setStop() {
	sim.RaceDisable()
	atomic.StoreInt32(&h.stop, 1)
	sim.RaceEnable()
}

//go:norace
func (h *c06Shared) readerDone() {
	sim.RaceDisable()
	atomic.AddInt32(&h.readers, -1)
	sim.RaceEnable()
}

//go:norace
func (h *c06Shared) readersLeft() int32 {
	sim.RaceDisable()
	v := atomic.LoadInt32(&h.readers)
	sim.RaceEnable()
	return v
}

// vioBox collects the first violation of every task without sharing
// instrumented memory between tasks.
type vioBox struct{ v [8]*drv.Violation }

// GetVersioned is deliberately absent: it is a MutableTree method that reads the
// handle's working-tree pointer, which only the writer's thread may touch.
var c06ReadOps = []string{"get", "has", "getwithindex", "getbyindex", "iter-asc", "iter-desc", "iterrange", "proof", "export", "export-pinned"}

func genC06(seed uint64, run int, tier string) *drv.Plan { return genC06b(seed, run, tier, nil) }

func genC06b(seed uint64, run int, tier string, tweak func(b *drv.Bias)) *drv.Plan {
	r := sim.Sub(seed, "C06", run)
	b := drv.DefaultBias()
	b.NoEmptyValues = true
	b.Tiny, b.Small, b.MediumMax = 20, 45, 40
	b.MaxOpsPerVersion = 6
	b.MinVersions, b.MaxVersions = 2, 6
	b.Reopen, b.Load, b.LVFO, b.DVF, b.Discard, b.Recommit, b.SetNil, b.ExpImp, b.Pin = 0, 0, 0, 0, 0, 0, 0, 0, 0
	b.Prune = 40
	b.NoopVersion = 10
	b.InitVers = []int64{0}
	b.Flushes = []int{200, 400, 1000, 100000}
	if tier == "thorough" {
		b.MaxVersions = 9
		b.MediumMax = 24
	}
	if tweak != nil {
		tweak(&b)
	}
	mode := "sync"
	if r.Chance(2, 5) {
		mode = "async"
		if r.Chance(1, 2) {
			mode = "async-bracket" // SetCommitting/UnsetCommitting around SaveVersion, as the SDK does
			// versions that share their root with the next one make the pruner
			// re-key a root, the one write of it that saves a node
			b.NoopVersion = 25
		}
	}
	g := drv.NewGen(r, b)
	p := &drv.Plan{Engine: "drv", Mode: mode}
	p.Config = g.Config()
	p.Config.Cache = r.Pick(0, 0, 2, 1000)
	p.Config.AsyncPrune = mode != "sync"
	if p.Config.AsyncPrune {
		// how fast the clock runs against the tasks' progress decides where the
		// pruner's 100 ms poll falls: only when everybody else is idle (0), or
		// somewhere inside the writer's next operations
		p.Config.QuantumUs = r.Pick(0, 0, 200, 1000, 5000, 20000)
	}
	steps := g.History()
	// the writer must end on a commit
	for len(steps) > 0 {
		op := steps[len(steps)-1].Op
		if op == drv.OpSet || op == drv.OpRemove {
			steps = steps[:len(steps)-1]
			continue
		}
		break
	}
	p.Steps = steps
	// readers
	nr := r.Range(1, 3)
	id := 700000
	pool := g.Pool()
	for rd := 0; rd < nr; rd++ {
		nb := r.Range(2, 8)
		for i := 0; i < nb; i++ {
			id++
			n := r.Range(1, 4)
			ops := make([]string, n)
			for j := range ops {
				ops[j] = c06ReadOps[r.Intn(len(c06ReadOps))]
			}
			rid := rd
			// version selector: 0 = latest (the SDK query path), 1 = oldest retained, 2..4 = seeded,
			// 5 = AHEAD: the version whose commit may be in flight (read only if GetImmutable hands it out)
			sel := int64(r.Pick(0, 0, 0, 1, 1, 2, 3, 4, 5, 5))
			p.Steps = append(p.Steps, drv.Step{ID: id, Op: "r.read", Cache: &rid, N: sel, Reads: ops, K: pool[r.Intn(len(pool))]})
		}
	}
	return p
}

type c06Version struct {
	pairs  *ref.SMap
	hash   []byte
	export []ref.ExportNode
}

// c06Span is the stretch of the physical write log during which one writer
// operation ran (lo = log length when it was called, hi = when it returned).
type c06Span struct {
	lo, hi int
	n      int64 // save: the version; prune: the target
	sync   bool
}

// c06Log is what a run leaves behind for C05's mode "async" (stops at write
// boundaries of a commit interleaved with background pruning).
type c06Log struct {
	saves, prunes []c06Span
	M             *ref.VMap
	T             *ref.Tree
	sim           *sim.SimDB
	universe      map[string]bool
}

func execC06(p *drv.Plan) *Out {
	if p.Mode == "commit-window" {
		return execC06Window(p)
	}
	return execC06x(p, nil)
}

func execC06x(p *drv.Plan, lg *c06Log) *Out {
	out := &Out{Evals: 1, Probes: map[string]int{}, Stats: map[string]int{}, Faults: map[string]int{}}
	out.Sample = p.Compact()
	var wsteps []drv.Step
	rsteps := map[int][]drv.Step{}
	maxR := -1
	for _, s := range p.Steps {
		if s.Op == "r.read" {
			rid := 0
			if s.Cache != nil {
				rid = *s.Cache
			}
			if rid < 0 || rid > 3 {
				rid = 0
			}
			rsteps[rid] = append(rsteps[rid], s)
			if rid > maxR {
				maxR = rid
			}
		} else {
			wsteps = append(wsteps, s)
		}
	}
	// expected contents of every version: a pure function of the writer's steps
	M, T := ref.NewVMap(), ref.NewTree()
	vers := map[int64]*c06Version{}
	universe := map[string]bool{}
	nsaves := 0
	for _, s := range wsteps {
		switch s.Op {
		case drv.OpSet:
			M.Set(s.K, s.V)
			T.Set(s.K, s.V)
			universe[string(s.K)] = true
		case drv.OpRemove:
			M.Remove(s.K)
			T.Remove(s.K)
			universe[string(s.K)] = true
		case drv.OpSave:
			v := M.Commit()
			_, h := T.Commit()
			nsaves++
			if v <= maxVers {
				vers[v] = &c06Version{pairs: M.Committed[v], hash: h, export: ref.Export(T.Roots[v])}
				_ = M.Committed[v].Keys() // fill the sorted-key cache now: the readers only read it
			}
		}
	}
	if nsaves == 0 || nsaves > maxVers {
		return out
	}
	var probeKeys [][]byte
	{
		w0 := drv.NewWorld(p.Config)
		for k := range universe {
			w0.Universe[k] = true
		}
		probeKeys = w0.ProbeKeys()
	}

	w := drv.NewWorld(p.Config)
	var tree *iavl.MutableTree
	seedR := drv.SubRand(p, "c06-sched")
	den := seedR.Pick(2, 3, 5, 8, 16, 40)
	sched := sim.NewSched(seedR, 1, den, p.Schedule, p.UseSchedule)
	sched.Quantum = time.Duration(p.Config.QuantumUs) * time.Microsecond
	// (the probe runs on whatever task yields, also on the pruner the constructor
	// starts: its view of the harness variable is hidden from the race detector,
	// like every other hand-off of the scheduler)
	var treeP atomic.Pointer[iavl.MutableTree]
	sched.Probe = func() bool {
		sim.RaceDisable()
		t := treeP.Load()
		sim.RaceEnable()
		return t != nil && iavl.VerifLocksFree(t)
	}
	iavl.VerifHooks.Yield = sched.Yield
	iavl.VerifHooks.Spawn = func(o any) { sched.Spawn(o) }
	iavl.VerifHooks.Enter = func(o any) { sched.Enter(o) }
	iavl.VerifHooks.Exit = func(o any) { sched.Exit(o) }
	iavl.VerifHooks.Done = func(o any) bool { return sched.Done(o) }
	iavl.VerifHooks.BlockUntil = sched.BlockUntil
	iavl.VerifHooks.Sleep = sched.Sleep
	defer func() {
		if out.Tainted {
			// tasks of the code under test are still alive (hang): the hooks stay
			// as they are and the process ends after this run
			return
		}
		iavl.VerifHooks.Yield, iavl.VerifHooks.Spawn, iavl.VerifHooks.Enter, iavl.VerifHooks.Exit = nil, nil, nil, nil
		iavl.VerifHooks.Done, iavl.VerifHooks.BlockUntil, iavl.VerifHooks.Sleep = nil, nil, nil
		if w.Sim != nil {
			w.Sim.Hook = nil
		}
	}()
	// the hooks are installed before the tree exists: the async pruner is
	// started by the constructor and must be a task from its first statement
	if err := w.Open(); err != nil {
		out.Violations = append(out.Violations, &drv.Violation{Prop: "C06", Oracle: "C06.setup", Symptom: "load-fails", Class: "open", Detail: err.Error()})
		return out
	}
	tree = w.Tree
	sim.RaceDisable()
	treeP.Store(w.Tree)
	sim.RaceEnable()
	w.Sim.Hook = func(kind string) { sched.Yield("simdb." + kind) }
	w.Sim.Who = sched.CurName
	if lg != nil {
		lg.M, lg.T, lg.sim, lg.universe = M, T, w.Sim, universe
	}
	// the physical write log is only consulted for C05's mode "async"
	logLen := func() int {
		if lg == nil {
			return 0
		}
		return w.Sim.LogLen()
	}

	sh := &c06Shared{floor: 1, readers: int32(maxR + 1)}
	box := &vioBox{}
	async := p.Config.AsyncPrune
	bracket := p.Mode == "async-bracket"
	report := func(slot int, v *drv.Violation) {
		box.v[slot] = v
		sh.setStop()
	}
	guard := func(slot int, step drv.Step, what string, f func() *drv.Violation) {
		defer func() {
			if r := recover(); r != nil {
				report(slot, &drv.Violation{Prop: "C06", Oracle: "C06.no-panic", Symptom: "panic", Class: what, Detail: fmt.Sprintf("%s: panic: %v", step.String(), r), StepID: step.ID})
			}
		}()
		if v := f(); v != nil {
			v.StepID = step.ID
			report(slot, v)
		}
	}

	// ---------------------------------------------------------------- writer
	var lateOpen *iavl.Exporter
	var lateV, lateN int64
	lateSaves := 0
	drainLate := func(s drv.Step) {
		e := lateOpen
		lateOpen = nil
		// while the export is open its version is pinned: it must still be there
		stillThere := tree.VersionExists(lateV)
		if _, gerr := tree.GetImmutable(lateV); gerr != nil {
			stillThere = false
		}
		if !stillThere && box.v[0] == nil {
			report(0, &drv.Violation{Prop: "C06", Oracle: "C06.pin", Symptom: "pinned-version-deleted", Class: "late-export/async", Detail: fmt.Sprintf("version %d is gone although an export of it, opened right after DeleteVersionsTo(%d) was queued, is still open (%d commit(s) later)", lateV, lateN, lateSaves), StepID: s.ID})
		}
		nodes, nerr := drv.ExportAll(e.Next)
		e.Close()
		exp := vers[lateV]
		if box.v[0] != nil || exp == nil {
			return
		}
		if nerr != nil {
			report(0, &drv.Violation{Prop: "C06", Oracle: "C06.pin", Symptom: "pinned-version-deleted", Class: "late-export/async", Detail: fmt.Sprintf("an export of version %d, opened right after DeleteVersionsTo(%d) was queued and held over %d commit(s), failed: %v", lateV, lateN, lateSaves, nerr), StepID: s.ID})
		} else if d := drv.CompareExport(nodes, exp.export); d != "" {
			report(0, &drv.Violation{Prop: "C06", Oracle: "C06.pin", Symptom: "pinned-version-deleted", Class: "late-export/async", Detail: fmt.Sprintf("an export of version %d, opened right after DeleteVersionsTo(%d) was queued and held over %d commit(s), is incomplete: %s", lateV, lateN, lateSaves, d), StepID: s.ID})
		}
	}
	var deferred *drv.Step
	lastSaveID := -1
	for _, s := range wsteps {
		if s.Op == drv.OpSave {
			lastSaveID = s.ID
		}
	}
	doPrune := func(s drv.Step) *drv.Violation {
		latest := sh.load(&sh.latest)
		first := sh.load(&sh.floor)
		n := s.N
		if n >= latest {
			n = latest - 1
			// Background pruning accepts a request up to the LATEST version and
			// carries it out once a newer version exists (the pruner retries).
			// Only where a later commit follows, else the readers would wait for ever.
			if async && s.ID < lastSaveID && s.N == latest {
				n = latest
			}
		}
		// only versions nobody reads: stay below the lowest lease
		for v := first; v <= n; v++ {
			if sh.load(&sh.leases[v]) > 0 {
				n = v - 1
				break
			}
		}
		if n < first {
			return nil
		}
		if n == latest {
			sh.add(&sh.pruneToLatest, 1)
		}
		pinned := false
		for v := first; v <= n; v++ {
			if sh.load(&sh.pins[v]) > 0 {
				pinned = true
			}
		}
		if !pinned {
			sh.store(&sh.floor, n+1)
		}
		var late *iavl.Exporter
		var lateErr error
		if async && !pinned && s.ID%3 == 0 {
			// an export opened right after the deletion was requested, before
			// the background pruner had a chance to look: from the moment
			// Export() returned the version is pinned and must stay complete
			sched.Atomic(func() {
				plo := logLen()
				lateErr = tree.DeleteVersionsTo(n)
				if lg != nil && lateErr == nil {
					lg.prunes = append(lg.prunes, c06Span{lo: plo, hi: logLen(), n: n, sync: !async})
				}
				if it, e := tree.GetImmutable(n); e == nil {
					late, _ = it.Export()
				}
			})
			if late != nil {
				sh.add(&sh.latePins, 1)
				// it is kept open over the writer's next commit (which flushes
				// whatever the pruner queued) and drained afterwards
				if lateOpen != nil {
					drainLate(s)
				}
				lateOpen, lateV, lateN, lateSaves = late, n, n, 0
			}
		}
		err := lateErr
		if late == nil && lateErr == nil {
			plo := logLen()
			err = tree.DeleteVersionsTo(n)
			if lg != nil && err == nil {
				lg.prunes = append(lg.prunes, c06Span{lo: plo, hi: logLen(), n: n, sync: !async})
			}
		}
		switch {
		case pinned && !async && err == nil:
			return &drv.Violation{Prop: "C06", Oracle: "C06.pin", Symptom: "accepted", Class: "prune-pinned", Detail: fmt.Sprintf("DeleteVersionsTo(%d) succeeded while an Exporter is open on a version <= %d", n, n)}
		case !pinned && err != nil:
			return &drv.Violation{Prop: "C06", Oracle: "C06.writer", Symptom: "error-on-legal-request", Class: "prune", Detail: fmt.Sprintf("DeleteVersionsTo(%d): %v (floor %d latest %d)", n, err, first, latest)}
		}
		if pinned {
			sh.add(&sh.pinnedReq, 1)
			if async && err == nil {
				// the request was accepted and is carried out once the
				// exporters have gone: from now on nobody may start
				// reading these versions (the application asked for
				// their deletion), whatever the pruner's progress
				sh.store(&sh.floor, n+1)
			}
		}
		return nil
	}
	sched.Go("writer", func() {
		defer func() {
			if lateOpen != nil {
				lateOpen.Close()
				lateOpen = nil
			}
		}()
		for _, s := range wsteps {
			if lateOpen != nil && lateSaves >= 1 && s.Op != drv.OpSet && s.Op != drv.OpRemove {
				// let the pruner work first (simulated time passes), then read the export
				sched.Sleep(300 * time.Millisecond)
				drainLate(s)
			}
			if s.Op == drv.OpSave && lateOpen != nil {
				lateSaves++
			}
			if sh.stopped() {
				break
			}
			s := s
			guard(0, s, "writer/"+s.Op, func() *drv.Violation {
				switch s.Op {
				case drv.OpSet:
					if _, err := tree.Set(s.K, s.V); err != nil {
						return &drv.Violation{Prop: "C06", Oracle: "C06.writer", Symptom: "error-on-legal-request", Class: "set", Detail: err.Error()}
					}
				case drv.OpRemove:
					if _, _, err := tree.Remove(s.K); err != nil {
						return &drv.Violation{Prop: "C06", Oracle: "C06.writer", Symptom: "error-on-legal-request", Class: "remove", Detail: err.Error()}
					}
				case drv.OpSave:
					if bracket {
						tree.SetCommitting()
						if deferred != nil {
							d := *deferred
							deferred = nil
							sh.add(&sh.bracketPrunes, 1)
							if v := doPrune(d); v != nil {
								tree.UnsetCommitting()
								return v
							}
						}
					}
					sh.store(&sh.saveLo, int64(w.Sim.LogLen()))
					sh.add(&sh.commitSeq, 1)
					slo := logLen()
					h, v, err := tree.SaveVersion()
					if lg != nil && err == nil {
						lg.saves = append(lg.saves, c06Span{lo: slo, hi: logLen(), n: v})
					}
					sh.add(&sh.commitSeq, 1)
					if bracket {
						tree.UnsetCommitting()
					}
					if err != nil {
						return &drv.Violation{Prop: "C06", Oracle: "C06.writer", Symptom: "error-on-legal-request", Class: "save", Detail: err.Error()}
					}
					exp := vers[v]
					if exp == nil || !bytes.Equal(h, exp.hash) {
						return &drv.Violation{Prop: "C06", Oracle: "C06.writer", Symptom: "hash-mismatch", Class: "save", Detail: fmt.Sprintf("SaveVersion = (%x,%d) under concurrent readers, expected hash %x", h, v, expHash(exp))}
					}
					sh.store(&sh.latest, v)
				case drv.OpPrune:
					if bracket && async && s.ID%2 == 0 && deferred == nil {
						// issued inside the bracket of the next commit instead: the
						// pruner then starts while the tree is marked as committing
						// and has to wait for the hand-over at its first write
						d := s
						deferred = &d
						return nil
					}
					return doPrune(s)
				}
				return nil
			})
		}
		if lateOpen != nil {
			sched.Sleep(300 * time.Millisecond)
			drainLate(drv.Step{ID: -1})
		}
		// wait for the readers, then close the tree (lets the async pruner exit)
		sched.BlockUntil(func() bool { return sh.readersLeft() <= 0 })
		if atomic.LoadInt32(&sh.finished) >= int32(maxR+1) { // visible acquire
			_ = tree.Close()
		}
	})

	// --------------------------------------------------------------- readers
	for rid := 0; rid <= maxR; rid++ {
		rid := rid
		steps := rsteps[rid]
		sched.Go(fmt.Sprintf("reader%d", rid), func() {
			defer sh.readerDone()
			defer atomic.AddInt32(&sh.finished, 1) // visible release
			for _, s := range steps {
				if sh.stopped() {
					return
				}
				latest := sh.load(&sh.latest)
				if latest == 0 {
					// nothing committed yet: wait for the first commit
					sched.BlockUntil(func() bool { return sh.load(&sh.latest) > 0 || sh.stopped() })
					latest = sh.load(&sh.latest)
					if latest == 0 {
						return
					}
				}
				floor := sh.load(&sh.floor)
				if floor > latest {
					// the deletion of everything up to the latest version has been
					// requested (background pruning carries it out once a newer
					// version exists): nothing to start reading until then
					sched.BlockUntil(func() bool { return sh.load(&sh.latest) >= sh.load(&sh.floor) || sh.stopped() })
					latest, floor = sh.load(&sh.latest), sh.load(&sh.floor)
					if floor > latest {
						return
					}
				}
				var v int64
				ahead := false
				switch {
				case s.N == 0:
					v = latest
				case s.N == 1:
					v = floor
				case s.N == 5:
					// a version GetImmutable hands out is a committed version for its
					// reader, also when the writer's SaveVersion has not returned yet
					v, ahead = latest+1, true
					if v > maxVers || vers[v] == nil {
						continue
					}
				default:
					v = floor + (s.N*7)%(latest-floor+1)
				}
				sh.add(&sh.leases[v], 1)
				s := s
				guard(1+rid, s, fmt.Sprintf("reader/v=%s", verKind(v, floor, latest)), func() *drv.Violation {
					return c06Read(tree, sched, sh, w.Sim, s, v, vers[v], probeKeys, latest, p.Config.Fast, ahead, out)
				})
				sh.add(&sh.leases[v], -1)
			}
		})
	}

	problem := sched.Run(p2d(45))
	out.Schedule = append([]int{}, sched.Rec...)
	out.SimMs = int64(sched.SimTime / time.Millisecond)
	out.Stats["yield_choices"] = len(sched.Rec)
	out.Stats["task_switches"] = sched.Switches
	adj := sched.Adjacency()
	keys := make([]string, 0, len(adj))
	for k := range adj {
		keys = append(keys, k)
	}
	sort.Strings(keys)
	out.States = keys
	out.NonTrivial = sched.Switches >= 2 && nsaves >= 1
	var tr drv.Tracer
	tr.Add(fmt.Sprint(sched.Rec), sched.Switches, problem)
	for _, v := range box.v {
		if v != nil {
			tr.Add(v.Sig())
			out.Violations = append(out.Violations, v)
		}
	}
	if problem != "" {
		out.Tainted = true
		sym := "deadlock"
		if len(problem) > 4 && problem[:4] == "hang" {
			sym = "hang"
		}
		out.Violations = append(out.Violations, &drv.Violation{Prop: "C06", Oracle: "C06.no-deadlock", Symptom: sym, Class: p.Mode, Detail: problem})
	}
	if os.Getenv("VERIF_DEBUG_C06") != "" && w.Sim != nil {
		for _, rec := range w.Sim.Log(0, w.Sim.LogLen()) {
			fmt.Fprintf(os.Stderr, "write #%d task=%s site=%s\n", rec.Seq, rec.Task, rec.Site)
			for _, op := range rec.Ops {
				fmt.Fprintf(os.Stderr, "    del=%v %x (%d bytes)\n", op.Del, op.K, len(op.V))
			}
		}
		fmt.Fprintf(os.Stderr, "adjacency: %v\n", out.States)
		fmt.Fprintf(os.Stderr, "latest=%d floor=%d readersLeft=%d problem=%s\n", sh.load(&sh.latest), sh.load(&sh.floor), sh.readersLeft(), problem)
	}
	out.Trace = fmt.Sprintf("%016x", tr.Sum())
	out.Probes["prune.pinned-request"] = int(sh.pinnedReq)
	out.Probes["export.pinned"] = int(sh.exportPinned)
	out.Probes["export.double-close"] = int(sh.doubleClose)
	out.Probes["export.late-pin-async"] = int(sh.latePins)
	out.Probes["prune.inside-commit-bracket"] = int(sh.bracketPrunes)
	out.Probes["reader.ahead.not-handed-out"] = int(sh.aheadNotYet)
	out.Probes["reader.ahead.read"] = int(sh.aheadVisible)
	out.Probes["reader.ahead.read-before-SaveVersion-returned"] = int(sh.aheadEarly)
	out.Probes["prune.to-latest-async"] = int(sh.pruneToLatest)
	out.Probes["reader.bundle-ended-after-accepted-deletion"] = int(sh.bundleCut)
	if async {
		out.Probes["mode.async"]++
	} else {
		out.Probes["mode.sync"]++
	}
	return out
}

func p2d(sec int) time.Duration { return time.Duration(sec) * time.Second }

func expHash(v *c06Version) []byte {
	if v == nil {
		return nil
	}
	return v.hash
}

func verKind(v, floor, latest int64) string {
	switch {
	case v == latest:
		return "latest"
	case v == floor:
		return "oldest"
	}
	return "middle"
}

// c06Read executes one reader bundle on version v and compares every result
// with the precomputed contents of that version.
func c06Read(tree *iavl.MutableTree, sched *sim.Sched, sh *c06Shared, disk *sim.SimDB, s drv.Step, v int64, exp *c06Version, keys [][]byte, latestAtStart int64, fastOn bool, ahead bool, out *Out) *drv.Violation {
	cls := "read"
	ctx := "older"
	if v == latestAtStart {
		ctx = "latest"
	}
	if ahead {
		ctx = "ahead"
	}
	if fastOn {
		ctx += "/index-on"
	} else {
		ctx += "/index-off"
	}
	// whether a commit was in flight at any time during this reader bundle is
	// part of the signature: the listed findings need one
	seq0 := sh.load(&sh.commitSeq)
	bad := func(oracle, symptom, what, detail string) *drv.Violation {
		flight := "/no-commit"
		if seq1 := sh.load(&sh.commitSeq); seq0%2 == 1 || seq1 != seq0 {
			flight = "/commit-in-flight"
			// Who wrote the index entries of the commit in flight out, and how?
			// On the unchanged tree only the writer does (its own threshold
			// flushes and its Commit), or another task whose own Set/Delete
			// pushed the shared batch over the flush threshold. Anything else
			// (another task writing the writer's pending batch out on its own
			// account) is a different defect with the same symptom and gets a
			// class of its own, so that the listed findings do not cover it.
			if lo := int(sh.load(&sh.saveLo)); disk != nil && lo <= disk.LogLen() {
				for _, rec := range disk.Log(lo, disk.LogLen()) {
					if rec.Task == "" || rec.Task == "writer" {
						continue
					}
					index := false
					for _, op := range rec.Ops {
						if len(op.K) > 0 && (op.K[0] == 'f' || op.K[0] == 'm') {
							index = true
						}
					}
					if index && !strings.Contains(rec.Site, "BatchWithFlusher.Set") && !strings.Contains(rec.Site, "BatchWithFlusher.Delete") {
						flight = "/commit-in-flight+index-written-out-by-" + rec.Task
						break
					}
				}
			}
		}
		c := ctx
		if ahead {
			// once the writer has announced the version, its reader is an
			// ordinary reader of the latest (or an older) version
			// (v = latest at start + 1, so it has been the latest version at some
			// time during this bundle: the convention of the other readers, whose
			// label is the one of the bundle's start)
			if cur := sh.load(&sh.latest); cur >= v {
				c = strings.Replace(c, "ahead", "latest", 1)
			}
		}
		return &drv.Violation{Prop: "C06", Oracle: oracle, Symptom: symptom, Class: what + "@" + c + flight, Detail: fmt.Sprintf("reader of version %d (latest at start %d): %s", v, latestAtStart, detail)}
	}
	if exp == nil {
		return nil
	}
	it, err := tree.GetImmutable(v)
	if err != nil {
		if ahead {
			sh.add(&sh.aheadNotYet, 1)
			return nil // not handed out (yet): nothing to read
		}
		return bad("C06.read", "version-unreadable", "GetImmutable", fmt.Sprintf("GetImmutable(%d): %v", v, err))
	}
	if ahead {
		sh.add(&sh.aheadVisible, 1)
		if sh.load(&sh.latest) < v {
			sh.add(&sh.aheadEarly, 1)
		}
	}
	r := sim.Sub(uint64(s.ID), "c06-read")
	pick := func() []byte {
		if r.Chance(1, 3) && len(s.K) > 0 {
			return s.K
		}
		return keys[r.Intn(len(keys))]
	}
	want := exp.pairs
	for _, op := range s.Reads {
		k := pick()
		wv, present := want.Get(k)
		switch op {
		case "get":
			got, err := it.Get(k)
			if err != nil {
				return bad("C06.read", "error-on-legal-request", "Get", err.Error())
			}
			if (got != nil) != present || (present && !bytes.Equal(got, wv)) {
				sym := "wrong-value"
				if present && got == nil {
					sym = "spurious-absence"
				}
				return bad("C06.read", sym, "Get", fmt.Sprintf("Get(%x)=%x want %x present=%v", k, got, wv, present))
			}
		case "has":
			got, err := it.Has(k)
			if err != nil || got != present {
				return bad("C06.read", "wrong-value", "Has", fmt.Sprintf("Has(%x)=(%v,%v) want %v", k, got, err, present))
			}
		case "getwithindex":
			idx, got, err := it.GetWithIndex(k)
			rank, _ := want.Rank(k)
			if err != nil || idx != int64(rank) || (got != nil) != present || (present && !bytes.Equal(got, wv)) {
				return bad("C06.read", "wrong-value", "GetWithIndex", fmt.Sprintf("GetWithIndex(%x)=(%d,%x,%v) want (%d,%x)", k, idx, got, err, rank, wv))
			}
		case "getbyindex":
			i := r.Intn(want.Len() + 1)
			gk, gv, err := it.GetByIndex(int64(i))
			pr, ok := want.ByIndex(i)
			if err != nil || (ok && (!bytes.Equal(gk, pr.K) || !bytes.Equal(gv, pr.V))) || (!ok && gk != nil) {
				return bad("C06.read", "wrong-value", "GetByIndex", fmt.Sprintf("GetByIndex(%d)=(%x,%x,%v) want (%x,%x)", i, gk, gv, err, pr.K, pr.V))
			}
		case "iter-asc", "iter-desc":
			asc := op == "iter-asc"
			var start, end []byte
			if r.Chance(1, 2) {
				start = k
			}
			if r.Chance(1, 3) {
				end = pick()
			}
			itr, err := it.Iterator(start, end, asc)
			if err != nil {
				return bad("C06.read", "error-on-legal-request", "Iterator", err.Error())
			}
			var got []ref.Pair
			for ; itr.Valid(); itr.Next() {
				got = append(got, ref.Pair{K: append([]byte{}, itr.Key()...), V: append([]byte{}, itr.Value()...)})
			}
			ierr := itr.Error()
			_ = itr.Close()
			if ierr != nil {
				return bad("C06.read", "error-on-legal-request", "Iterator", ierr.Error())
			}
			if d := diffP(got, want.Range(start, end, asc, false)); d != "" {
				return bad("C06.read", "wrong-iteration", "Iterator", fmt.Sprintf("Iterator(%x,%x,%v): %s", start, end, asc, d))
			}
		case "iterrange":
			var got []ref.Pair
			it.IterateRange(nil, nil, true, func(key, val []byte) bool {
				got = append(got, ref.Pair{K: append([]byte{}, key...), V: append([]byte{}, val...)})
				return false
			})
			if d := diffP(got, want.Pairs()); d != "" {
				return bad("C06.read", "wrong-iteration", "IterateRange", d)
			}
		case "proof":
			if want.Len() == 0 {
				continue
			}
			pf, err := it.GetProof(k)
			if err != nil {
				return bad("C06.read", "error-on-legal-request", "GetProof", err.Error())
			}
			ok := false
			if present {
				ok = ics23.VerifyMembership(ics23.IavlSpec, exp.hash, pf, k, wv)
			} else {
				ok = ics23.VerifyNonMembership(ics23.IavlSpec, exp.hash, pf, k)
			}
			if !ok {
				return bad("C06.read", "does-not-verify", "GetProof", fmt.Sprintf("proof of %x (present=%v) does not verify against the version's root", k, present))
			}
		case "versioned":
			got, err := tree.GetVersioned(k, v)
			if err != nil || (got != nil) != present || (present && !bytes.Equal(got, wv)) {
				return bad("C06.read", "wrong-value", "GetVersioned", fmt.Sprintf("GetVersioned(%x,%d)=(%x,%v) want %x present=%v", k, v, got, err, wv, present))
			}
		case "export", "export-pinned":
			e, err := it.Export()
			if err != nil {
				return bad("C06.read", "error-on-legal-request", "Export", err.Error())
			}
			pinnedOnly := op == "export-pinned"
			if pinnedOnly {
				// hold the version only through the open export
				sh.add(&sh.pins[v], 1)
				sh.add(&sh.leases[v], -1)
				sh.add(&sh.exportPinned, 1)
			}
			var nodes []*iavl.ExportNode
			var nerr error
			for {
				n, err := e.Next()
				if errors.Is(err, iavl.ErrorExportDone) {
					break
				}
				if err != nil {
					nerr = err
					break
				}
				nodes = append(nodes, n)
				if len(nodes) > 1<<16 {
					nerr = errors.New("export does not terminate")
					break
				}
			}
			e.Close()
			if r.Chance(1, 2) {
				// "It is safe to call multiple times": the usual defer Close() plus
				// an explicit Close(); it must not release anybody else's pin
				e.Close()
				sh.add(&sh.doubleClose, 1)
			}
			if pinnedOnly {
				sh.add(&sh.leases[v], 1)
				sh.add(&sh.pins[v], -1)
			}
			if nerr != nil {
				return bad("C06.read", "error-on-legal-request", "Export", nerr.Error())
			}
			if d := drv.CompareExport(nodes, exp.export); d != "" {
				return bad("C06.read", "wrong-stream", "Export", d)
			}
			if pinnedOnly && sh.load(&sh.floor) > v {
				// While only the export held the version, the application asked
				// for its deletion; background pruning accepted the request and
				// carries it out now that the export is closed. The rest of this
				// bundle would read a version whose deletion was requested: it ends
				// here. (Harness false alarm met once the simulated clock advanced
				// during the tasks' work and the pruner acted that early.)
				sh.add(&sh.bundleCut, 1)
				return nil
			}
		}
	}
	_ = cls
	return nil
}

func diffP(got, want []ref.Pair) string {
	if len(got) != len(want) {
		return fmt.Sprintf("got %d pairs want %d", len(got), len(want))
	}
	for i := range got {
		if !bytes.Equal(got[i].K, want[i].K) || !bytes.Equal(got[i].V, want[i].V) {
			return fmt.Sprintf("pair %d = (%x,%x) want (%x,%x)", i, got[i].K, got[i].V, want[i].K, want[i].V)
		}
	}
	return ""
}

func init() {
	Register(&Check{ID: "C06", Level: "exploration", Engine: "drv", QuickRuns: 8000, ThoroughS: 600, Race: true, RunTimeout: 90 * time.Second, Components: map[string]string{
		"tree/nodedb/batch/cache/iterators/proofs/export, async pruner": "real",
		"goroutine scheduling":              "real goroutines, order decided by the simulated Scheduler at guarded hook points, lock-free storage calls and harness operation boundaries",
		"clock":                             "simulated (the pruner's two sleeps)",
		"storage":                           "SimDB",
		"real readers (mode commit-window)": "real goroutines queued on the library's own locks; the locks decide the order, the harness only waits for 'blocked or done'",
		"race detection":                    "Go race detector (race build); the scheduler's hand-off and the harness's shared integers are hidden from it, so it reports exactly the accesses iavl's own synchronisation does not order",
	},
		Assumptions: []string{
			"the writer prunes only versions no reader holds (lease registry in the harness), as the statement says ('other versions')",
			"preemption happens at yield points (guarded hooks in iavl, storage calls made without an iavl lock held, harness operation boundaries), not at every memory access; races between yield points are still found by the happens-before detector",
			"expected contents of every version are computed from the writer's literal steps before the tasks start",
			"seeded schedule search, not exhaustive",
		},
		Rule: "one evaluation = one concurrent run: a writer task (Set/Remove/SaveVersion/DeleteVersionsTo, synchronous or asynchronous pruning, optionally inside the SetCommitting bracket), 1-3 reader tasks (GetImmutable of the latest / oldest / a seeded retained version, then Get/Has/GetWithIndex/GetByIndex/Iterator/IterateRange/GetProof/GetVersioned/Export, some exports held open as pins while the writer asks to delete the version) and iavl's own pruner/exporter goroutines, interleaved by the seeded scheduler; every read must equal the precomputed contents of its version, proofs must verify against its root, export streams must be complete, pinned versions must not be deleted, no panic, no deadlock, and (race build) no data race; distinct = plan digest; non-trivial = >=2 task switches after >=1 commit. One run in sixteen is of mode commit-window (no scheduler): right after every physical write of every SaveVersion a REAL reader goroutine is started on the version being committed (GetImmutable, Get/Has of <=12 probe keys, full Iterator, Hash) and the writer waits until it is blocked inside a lock acquisition (goroutine stack inspection) or has finished; before publication the writer collects its readers; a reader that is handed the version must read exactly it; states_distinct = distinct (task, yield point, next task) adjacencies",
		Gen: func(seed uint64, run int, tier string) *drv.Plan {
			p := genC06(seed, run, tier)
			if run%16 == 5 {
				// real readers queued on the library's locks inside every commit (c06window.go)
				p.Mode = "commit-window"
				p.Config.AsyncPrune, p.Config.QuantumUs = false, 0
			}
			return p
		},
		Exec: execC06})
}
