package checks

import (
	"fmt"
	"os"
	"sort"
	"strings"
	"time"

	"verif/drv"
	"verif/ref"
	"verif/sim"
)

type stepRec struct {
	step       drv.Step
	idx        int
	lo, hi     int
	disk       *sim.SimDB
	preM       *ref.VMap
	preT       *ref.Tree
	postM      *ref.VMap
	postT      *ref.Tree
	cleanAfter bool
	// orig is the record this one stands for when it describes the retry of an
	// interrupted step on a crash image (second stop, mode "nested").
	orig *stepRec
}

func (r *stepRec) self() *stepRec {
	if r.orig != nil {
		return r.orig
	}
	return r
}

func c05Bias(tier string) drv.Bias {
	b := drv.DefaultBias()
	b.Prune, b.LVFO, b.DVF, b.Reopen, b.ExpImp = 25, 10, 4, 15, 6
	b.Load, b.Recommit, b.SetNil, b.Discard = 0, 0, 0, 4
	b.BigValues = 25
	b.NoopVersion = 15
	b.Flushes = []int{150, 180, 220, 300, 400, 700, 2000, 100000}
	b.InitVers = []int64{0, 0, 0, 5}
	b.MaxVersions = 8
	b.Tiny, b.Small, b.MediumMax = 25, 45, 24
	if tier == "thorough" {
		b.MaxVersions = 14
		b.MediumMax = 40
	}
	return b
}

// committedOnly resets a model pair to "what survives a stop": the latest
// committed version loaded, no uncommitted changes.
func committedOnly(m *ref.VMap, t *ref.Tree) (*ref.VMap, *ref.Tree) {
	m2, t2 := m.Clone(), t.Clone()
	m2.Load(m2.Latest)
	t2.Load(t2.Latest)
	return m2, t2
}

func spacesOf(recs []sim.WriteRec, applied int) string {
	tot := map[byte]int{}
	done := map[byte]int{}
	for i, rec := range recs {
		for _, op := range rec.Ops {
			tot[op.K[0]]++
			if i < applied {
				done[op.K[0]]++
			}
		}
	}
	var parts []string
	for _, sp := range []byte{'s', 'f', 'm'} {
		if tot[sp] == 0 {
			continue
		}
		st := "partial"
		if done[sp] == 0 {
			st = "none"
		} else if done[sp] == tot[sp] {
			st = "full"
		}
		parts = append(parts, fmt.Sprintf("%c-%s", sp, st))
	}
	return strings.Join(parts, ",")
}

// c05BigImport: thorough tier only. A tree of ~10 400 nodes is exported and
// imported so that the importer's own batch boundary (10 000 nodes, a constant
// that cannot be lowered add-only) is crossed: the import then consists of
// several physical writes, each boundary of which is a cut.
func c05BigImport(p *drv.Plan) *Out {
	out := &Out{Evals: 1, Probes: map[string]int{"mode.big-import": 1}, Stats: map[string]int{}, Faults: map[string]int{}}
	out.Sample = "big-import: 10500 keys in two versions, export of version 2, import, every cut of the import's physical writes"
	cfg := p.Config
	cfg.InitVer, cfg.InitMode = 0, ""
	if cfg.Flush > 0 && cfg.Flush < 1500 {
		cfg.Flush = 1500 // a write per node would make this one run cost minutes
	}
	pc := *p
	pc.Config = cfg
	src := drv.NewWorld(cfg)
	if err := src.Open(); err != nil {
		return out
	}
	defer src.Cleanup()
	for i := 0; i < 10500; i++ {
		k := []byte(fmt.Sprintf("big%05d", (i*7919)%10500))
		v := []byte(fmt.Sprintf("b%d", i))
		src.Tree.Set(k, v)
		src.M.Set(k, v)
		src.T.Set(k, v)
		if i == 5000 {
			src.Tree.SaveVersion()
			src.M.Commit()
			src.T.Commit()
		}
		if i%400 == 0 {
			src.Universe[string(k)] = true
		}
	}
	src.Tree.SaveVersion()
	src.M.Commit()
	src.T.Commit()
	src.KeepSnaps = true
	f := p.Config.Fast
	c := 0
	step := drv.Step{ID: 1, Op: drv.OpExpImp, N: 2, Codec: "plain", Fast: &f, Cache: &c}
	srcSim := src.Sim
	srcSim.KeepSnaps = true
	if v := src.Apply(step); v != nil {
		out.Violations = append(out.Violations, v)
		return out
	}
	disk := src.Sim // the import target
	n := disk.LogLen()
	out.Stats["import_physical_writes"] = n
	postM, postT := src.M.Clone(), src.T.Clone()
	rec := &stepRec{step: step, idx: 0, lo: 0, hi: n, disk: disk, preM: ref.NewVMap(), preT: ref.NewTree(), postM: postM, postT: postT, cleanAfter: true}
	recs := []*stepRec{rec}
	// the sampled universe keeps the audits affordable
	for k := range src.Universe {
		recs = append(recs, &stepRec{step: drv.Step{ID: 2, Op: drv.OpSet, K: []byte(k)}, lo: n, hi: n, disk: disk, preM: postM, preT: postT, postM: postM, postT: postT})
	}
	stepLog := disk.Log(0, n)
	cuts := 0
	// With a small flush threshold the import is tens of thousands of physical
	// writes: the first and last boundaries plus a seeded sample keep the run
	// within its budget (all boundaries when there are few).
	pick := map[int]bool{}
	if n > 24 {
		r := drv.SubRand(p, "c05-big-cuts")
		for i := 1; i <= 6; i++ {
			pick[i], pick[n-i] = true, true
		}
		for len(pick) < 24 {
			pick[1+r.Intn(n-1)] = true
		}
	}
	out.Stats["import_cuts_sampled"] = len(pick)
	for cut := 1; cut < n; cut++ {
		if len(pick) > 0 && !pick[cut] {
			continue
		}
		cuts++
		out.Faults["crash.expimp"]++
		cls := "expimp-big/" + spacesOf(stepLog, cut)
		_, v := checkCut(&pc, recs, 0, rec, cut, cls)
		if v != nil {
			v.StepID = 1
			out.Violations = append(out.Violations, v)
			break
		}
	}
	out.Evals = cuts
	if cuts == 0 {
		out.Evals = 1
	}
	out.Stats["cuts_enumerated"] = cuts
	out.NonTrivial = cuts >= 1
	return out
}

// genC05Legacy: a database written by the legacy library, then commits (a third
// of them without changes), removals and rollbacks in the new layout; every
// boundary between two physical writes of each of those steps is a cut.
func genC05Legacy(seed uint64, run int, tier string) *drv.Plan {
	lp := genC16(seed, run, tier)
	p := &drv.Plan{Engine: "drv", Mode: "legacy", Config: lp.Config}
	r := sim.Sub(seed, "C05-legacy", run)
	p.Config.Flush = r.Pick(150, 180, 220, 300, 700, 100000)
	for _, s := range lp.Steps {
		switch s.Op {
		case "l.set", "l.remove", "l.save", "l.del", drv.OpSet, drv.OpRemove, drv.OpSave, drv.OpLVFO, drv.OpDiscard:
			p.Steps = append(p.Steps, s)
		}
	}
	return p
}

// genC05Async: a writer with BACKGROUND pruning (and readers) under the
// scheduler of C06: the pruner's deletions share the write batch with the
// commits, so the physical writes of a deletion and of the commits that follow
// it interleave in a schedule-dependent way; every boundary is a cut.
func genC05Async(seed uint64, run int, tier string) *drv.Plan {
	p := genC06b(seed^0xc05a, run, tier, func(b *drv.Bias) {
		// larger trees, more versions and more deletions over several versions:
		// one deletion is then several physical writes of its own
		b.Tiny, b.Small, b.MediumMax = 5, 35, 48
		b.MinVersions, b.MaxVersions = 4, 9
		b.Prune = 70
		b.BigValues = 20
	})
	r := sim.Sub(seed, "C05-async", run)
	p.Mode = "async"
	if r.Chance(1, 2) {
		p.Mode = "async-bracket"
	}
	p.Config.AsyncPrune = true
	p.Config.Flush = r.Pick(120, 150, 180, 220, 300, 400)
	// a clock that runs fast against the tasks' progress: the pruner's polls
	// and retries (100 ms, 1 s) then fall INSIDE the writer's commits
	p.Config.QuantumUs = r.Pick(0, 1000, 5000, 20000, 50000, 50000, 100000)
	// a third of the deletion requests name the latest version itself: accepted
	// at once, carried out by the pruner's retries once the next commit is there
	latest := int64(0)
	for i := range p.Steps {
		switch p.Steps[i].Op {
		case drv.OpSave:
			latest++
		case drv.OpPrune:
			if latest > 0 && r.Chance(1, 3) {
				p.Steps[i].N = latest
			}
		}
	}
	return p
}

// c05Async executes the concurrent run, then audits the disk image at the
// boundaries between physical writes. Which of the writer's operations were
// under way at a boundary is known from the write-log positions at their calls
// and returns; the image must load, its latest version must be one whose commit
// had at least been started and no older than the last one that had returned,
// its oldest version must not lie above what the deletions requested so far
// allow, and EVERY version it lists must be complete: contents, hashes, all
// read paths. How far a deletion of several versions got is not judged here
// (the listed finding); a damaged version is.
func c05Async(p *drv.Plan) *Out {
	lg := &c06Log{}
	out := execC06x(p, lg)
	out.Probes["mode.async-crash"]++
	out.NonTrivial = false
	if len(out.Violations) > 0 || out.Tainted || lg.sim == nil {
		// trouble of the concurrent run itself is C06's subject
		out.Violations = nil
		if out.Tainted {
			out.Foreign = &drv.Violation{Prop: "C06", Oracle: "C06.no-deadlock", Symptom: "hang", Class: p.Mode, Detail: "concurrent run did not end"}
		}
		return out
	}
	n := lg.sim.LogLen()
	out.Stats["async_physical_writes"] = n
	pick := map[int]bool{}
	want := map[int]bool{}
	for _, c := range p.Crashes {
		want[c.Write] = true
	}
	r := drv.SubRand(p, "c05-async-cuts")
	max := 24
	if n <= max {
		for c := 1; c <= n; c++ {
			pick[c] = true
		}
	} else {
		pick[n] = true
		// boundaries inside a commit during which the pruner wrote are the
		// interesting ones: all of them first, then a seeded sample
		for _, sp := range lg.saves {
			for c := sp.lo + 1; c < sp.hi && len(pick) < max; c++ {
				pick[c] = true
			}
		}
		for len(pick) < max {
			pick[1+r.Intn(n)] = true
		}
	}
	cuts := 0
	seen := map[string]bool{}
	for c := 1; c <= n; c++ {
		if !pick[c] || (len(want) > 0 && !want[c]) {
			continue
		}
		cuts++
		out.Faults["crash.async-prune+commit"]++
		if v := c05AsyncCut(p, lg, c, n, out); v != nil {
			v.StepID = c
			if !seen[v.Sig()] && len(out.Violations) < 4 {
				seen[v.Sig()] = true
				out.Violations = append(out.Violations, v)
			}
		}
	}
	out.Evals = cuts
	if cuts == 0 {
		out.Evals = 1
	}
	out.Stats["cuts_enumerated"] = cuts
	out.NonTrivial = cuts >= 1 && len(lg.prunes) > 0
	if len(lg.prunes) > 0 {
		out.Probes["async-crash.with-deletion"]++
	}
	return out
}

func c05AsyncCut(p *drv.Plan, lg *c06Log, cut, n int, out *Out) *drv.Violation {
	cls := "async-prune+commit"
	var completed, started, maxReq, minFirst int64
	inSave := false
	for _, sp := range lg.saves {
		if sp.hi <= cut && sp.n > completed {
			completed = sp.n
		}
		if sp.lo < cut && sp.n > started {
			started = sp.n
		}
		if sp.lo < cut && cut < sp.hi {
			inSave = true
		}
	}
	for _, sp := range lg.prunes {
		if sp.lo < cut && sp.n > maxReq {
			maxReq = sp.n
		}
		if sp.sync && sp.hi <= cut && sp.n+1 > minFirst {
			minFirst = sp.n + 1
		}
	}
	if inSave {
		cls += "/in-commit"
		out.Probes["async-crash.cut-inside-commit"]++
	}
	bad := func(symptom, detail string) *drv.Violation {
		return &drv.Violation{Prop: "C05", Oracle: "C05.old-or-new", Symptom: symptom, Class: cls, Detail: fmt.Sprintf("background pruning: stop after physical write %d of %d (commits returned so far: up to version %d, started: up to %d, deletions requested: up to %d): %s", cut, n, completed, started, maxReq, detail)}
	}
	r := drv.SubRand(p, "c05-async", cut)
	cfg := p.Config
	cfg.AsyncPrune = false
	w2 := drv.NewWorld(cfg)
	w2.UseSim(lg.sim.ImageAt(cut))
	w2.Fast = r.Chance(1, 2)
	w2.Cache = r.Pick(0, 2, 1000)
	for k := range lg.universe {
		w2.Universe[k] = true
	}
	w2.M, w2.T = ref.NewVMap(), ref.NewTree()
	defer w2.Cleanup()
	if v := w2.Guard("C05", "C05.old-or-new", cls, func() *drv.Violation {
		if err := w2.Open(); err != nil {
			return bad("load-fails", fmt.Sprintf("Load() on the crash image: %v", err))
		}
		return nil
	}); v != nil {
		v.Class = cls
		return v
	}
	var latest, first int64
	if v := w2.Guard("C05", "C05.old-or-new", cls, func() *drv.Violation {
		l, err := w2.Tree.GetLatestVersion()
		if err != nil {
			return bad("load-fails", fmt.Sprintf("GetLatestVersion: %v", err))
		}
		latest = l
		if av := w2.Tree.AvailableVersions(); len(av) > 0 {
			first = int64(av[0])
		}
		return nil
	}); v != nil {
		return v
	}
	if latest < completed || latest > started {
		return bad("mixture", fmt.Sprintf("the image's latest version is %d", latest))
	}
	if latest > 0 && (first < 1 || first > maxReq+1 || first < minFirst || first > latest) {
		return bad("mixture", fmt.Sprintf("the image's oldest version is %d (latest %d)", first, latest))
	}
	if latest > 0 && first > 1 && first < maxReq+1 {
		out.Probes["async-crash.deletion-partly-done"]++
	}
	if latest > 0 && first > 1 && inSave {
		out.Probes["async-crash.deletion-writes+cut-inside-commit"]++
	}
	m2, t2 := lg.M.Clone(), lg.T.Clone()
	if latest == 0 {
		m2, t2 = ref.NewVMap(), ref.NewTree()
	} else {
		if latest < m2.Latest {
			m2.RollbackTo(latest)
			t2.RollbackTo(latest)
		}
		m2.Load(latest)
		t2.Load(latest)
		if first > 1 {
			m2.PruneTo(first - 1)
			t2.PruneTo(first - 1)
		}
	}
	w2.M, w2.T = m2, t2
	if v := w2.Guard("C05", "C05.old-or-new", cls, func() *drv.Violation { return auditCrashState(w2) }); v != nil {
		return bad("mixture", fmt.Sprintf("the image lists the versions %d..%d, but they are not all complete: %s", first, latest, firstLine(v.Detail)))
	}
	// the deletion requested last is repeated (synchronously), then one more commit
	var steps []drv.Step
	if maxReq >= first && maxReq < latest {
		steps = append(steps, drv.Step{ID: 1 << 22, Op: drv.OpPrune, N: maxReq})
	}
	if w2.Clean() {
		steps = append(steps, drv.Step{ID: 1<<22 + 1, Op: drv.OpSet, K: []byte("c05-extra"), V: []byte(fmt.Sprintf("x%d", cut))}, drv.Step{ID: 1<<22 + 2, Op: drv.OpSave})
	}
	for _, st := range steps {
		if v := w2.Apply(st); v != nil {
			return &drv.Violation{Prop: "C05", Oracle: "C05.retry", Symptom: "retry-diverges", Class: cls, Detail: fmt.Sprintf("background pruning: after a stop at write %d of %d (versions %d..%d) %s failed: %s", cut, n, first, latest, st.String(), v.Error())}
		}
	}
	if v := w2.Guard("C05", "C05.retry", cls, func() *drv.Violation { return auditCrashState(w2) }); v != nil {
		return &drv.Violation{Prop: "C05", Oracle: "C05.retry", Symptom: "retry-diverges", Class: cls, Detail: fmt.Sprintf("background pruning: after a stop at write %d of %d (versions %d..%d), the repeated deletion and one more commit: %s", cut, n, first, latest, v.Error())}
	}
	return nil
}

func execC05(p *drv.Plan) *Out {
	if p.Mode == "big-import" {
		return c05BigImport(p)
	}
	if p.Mode == "async" || p.Mode == "async-bracket" {
		return c05Async(p)
	}
	var recs []*stepRec
	var cur *stepRec
	idx := 0
	w := drv.NewWorld(p.Config)
	steps := p.Steps
	if p.Mode == "legacy" {
		o := &Out{Evals: 1, Probes: map[string]int{"mode.legacy": 1}, Stats: map[string]int{}, Faults: map[string]int{}}
		o.Sample = p.Compact()
		var lw *drv.World
		lw, steps, _, _, _ = legacyWorld(p, o)
		if lw == nil {
			return o
		}
		w = lw
		w.Sim.KeepSnaps = true
	}
	w.KeepSnaps = true
	hooks := drv.Hooks{
		Prop: "C05",
		Before: func(w *drv.World, s drv.Step) {
			cur = &stepRec{step: s, idx: idx, lo: w.Sim.LogLen(), disk: w.Sim, preM: w.M.Clone(), preT: w.T.Clone()}
			idx++
		},
		After: func(w *drv.World, s drv.Step) *drv.Violation {
			if w.Sim != cur.disk {
				// the step switched disks (import): its writes are the new disk's whole log
				cur.disk, cur.lo = w.Sim, 0
				cur.preM, cur.preT = ref.NewVMap(), ref.NewTree()
			}
			cur.hi = w.Sim.LogLen()
			cur.postM, cur.postT = w.M.Clone(), w.T.Clone()
			cur.cleanAfter = w.Clean()
			recs = append(recs, cur)
			return nil
		},
	}
	r1 := drv.RunOn(w, steps, hooks)
	out := stdOut(p, r1)
	out.Faults = map[string]int{}
	if p.Mode == "legacy" {
		out.Probes["mode.legacy"]++
		if r1.Vio != nil || r1.Foreign != nil {
			// fault-free trouble on a legacy database is C16's subject
			r1.Vio, r1.Foreign = nil, nil
			out.Violations, out.Foreign = nil, nil
			return out
		}
	}
	if r1.Vio != nil || r1.Foreign != nil {
		return out
	}
	cuts := 0
	multi := 0
	seenSig := map[string]bool{}
	var tr drv.Tracer
	var ns nestedStats
	type triple struct {
		Step    string `json:"step"`
		Cut     int    `json:"cut"`
		Outcome string `json:"outcome"`
	}
	var triples []triple
	// explicit crash list (replay files) restricts the cuts
	want := map[[2]int]bool{}
	for _, c := range p.Crashes {
		want[[2]int{c.Step, c.Write}] = true
	}
	for ri, rec := range recs {
		if rec.hi-rec.lo < 2 {
			continue
		}
		multi++
		stepLog := rec.disk.Log(rec.lo, rec.hi)
		for cut := rec.lo + 1; cut < rec.hi; cut++ {
			if len(want) > 0 && !want[[2]int{rec.step.ID, cut - rec.lo}] {
				continue
			}
			cuts++
			out.Faults["crash."+rec.step.Op]++
			cls := rec.step.Op + "/" + spacesOf(stepLog, cut-rec.lo)
			outcome, v := checkCutN(p, recs, ri, rec, cut, cls, 0, &ns)
			tr.Add(rec.step.ID, cut-rec.lo, outcome)
			if len(triples) < 6 {
				triples = append(triples, triple{rec.step.String(), cut - rec.lo, outcome})
			}
			if v != nil {
				// keep enumerating: one violation per distinct signature and run,
				// so that a listed finding never masks a different one
				v.StepID = rec.step.ID
				if !seenSig[v.Sig()] && len(out.Violations) < 8 {
					seenSig[v.Sig()] = true
					out.Violations = append(out.Violations, v)
				}
			}
		}
	}
	out.Evals = cuts
	if out.Evals < 1 {
		out.Evals = 1
	}
	out.Stats["cuts_enumerated"] = cuts
	out.Stats["multi_write_steps"] = multi
	if p.Mode == "nested" {
		out.Probes["mode.nested"]++
		out.Stats["second_stops"] = ns.second
		out.Stats["other_continuations"] = ns.other
		if ns.second > 0 {
			out.Faults["crash.second-stop-in-recovery"] += ns.second
		}
	}
	out.NonTrivial = cuts >= 1
	out.Trace = fmt.Sprintf("%s-%016x", out.Trace, tr.Sum())
	out.Sample = map[string]interface{}{"plan": p.Compact(), "cuts": triples}
	return out
}

// auditCrashState compares the whole observable state of a reopened image with a model.
func auditCrashState(w *drv.World) *drv.Violation {
	if v := w.AuditVersions("crash-image", false); v != nil {
		return v
	}
	if v := w.AuditAll("C05", "C05.old-or-new"); v != nil {
		return v
	}
	return w.AuditHashes()
}

func checkCut(p *drv.Plan, recs []*stepRec, ri int, rec *stepRec, cut int, cls string) (string, *drv.Violation) {
	return checkCutN(p, recs, ri, rec, cut, cls, 0, nil)
}

// nestedStats counts what the mode "nested" explored (second stops, other continuations).
type nestedStats struct{ second, other int }

// checkCutN: depth 0 is a stop inside the step itself; depth 1 (mode "nested")
// is a second stop, inside the recovery open or the retry that followed the first.
func checkCutN(p *drv.Plan, recs []*stepRec, ri int, rec *stepRec, cut int, cls string, depth int, ns *nestedStats) (string, *drv.Violation) {
	r := drv.SubRand(p, "c05", rec.step.ID, cut)
	if depth > 0 {
		r = drv.SubRand(p, "c05-2nd", rec.step.ID, rec.lo, cut)
	}
	img := rec.disk.ImageAt(cut)
	cfg := p.Config
	w2 := drv.NewWorld(cfg)
	w2.UseSim(img)
	w2.Fast = r.Chance(1, 2)
	w2.Cache = r.Pick(0, 2, 1000)
	where := ""
	if depth > 0 {
		where = "SECOND stop, during the recovery (open + retry) that followed a first stop inside the step: "
	}
	bad := func(symptom, detail string) *drv.Violation {
		return &drv.Violation{Prop: "C05", Oracle: "C05.old-or-new", Symptom: symptom, Class: cls, Detail: fmt.Sprintf("%sstop after physical write %d of %d of step %s: %s", where, cut-rec.lo, rec.hi-rec.lo, rec.step.String(), detail)}
	}
	oldM, oldT := committedOnly(rec.preM, rec.preT)
	newM, newT := committedOnly(rec.postM, rec.postT)
	for k := range universeOf(recs) {
		w2.Universe[k] = true
	}
	w2.M, w2.T = oldM.Clone(), oldT.Clone()
	var vOpen *drv.Violation
	vOpen = w2.Guard("C05", "C05.old-or-new", cls, func() *drv.Violation {
		if err := w2.Open(); err != nil {
			return bad("load-fails", fmt.Sprintf("Load() on the crash image: %v", err))
		}
		return nil
	})
	defer w2.Cleanup()
	if vOpen != nil {
		vOpen.Class = cls
		return "load-fails", vOpen
	}
	state := ""
	vOld := w2.Guard("C05", "C05.old-or-new", cls, func() *drv.Violation { return auditCrashState(w2) })
	if vOld == nil {
		state = "old"
	} else {
		w2.M, w2.T = newM.Clone(), newT.Clone()
		vNew := w2.Guard("C05", "C05.old-or-new", cls, func() *drv.Violation { return auditCrashState(w2) })
		if vNew != nil {
			// A rollback or a deletion over several versions that stopped at a
			// version in between is neither old nor new either, but it is a
			// different thing from a damaged state: every version that is left is
			// intact. It gets a symptom of its own so that the two are never
			// confused, and repeating the operation must still reach the
			// crash-free result.
			if what, mid := intermediateState(w2, "C05", "C05.old-or-new", cls, rec.step.Op, oldM, oldT, newM, newT); mid {
				if v := w2.Apply(rec.step); v != nil {
					return "intermediate+retry-fails", &drv.Violation{Prop: "C05", Oracle: "C05.retry", Symptom: "retry-diverges", Class: cls, Detail: fmt.Sprintf("a stop at write %d of step %s: %s, and repeating the operation failed: %s", cut-rec.lo, rec.step.String(), what, v.Error())}
				}
				if v := w2.Guard("C05", "C05.retry", cls, func() *drv.Violation { return auditCrashState(w2) }); v != nil {
					return "intermediate+retry-diverges", &drv.Violation{Prop: "C05", Oracle: "C05.retry", Symptom: "retry-diverges", Class: cls, Detail: fmt.Sprintf("a stop at write %d of step %s: %s, and after repeating the operation: %s", cut-rec.lo, rec.step.String(), what, v.Error())}
				}
				return "intermediate", bad("intermediate-version", what+": every remaining version is intact, but the state is neither the one before nor the one after")
			}
			return "mixture", bad("mixture", fmt.Sprintf("state is neither the one before (%s) nor the one after (%s)", firstLine(vOld.Detail), firstLine(vNew.Detail)))
		}
		state = "new"
	}
	// the model of the state the image showed (before anything is repeated)
	stM, stT := w2.M.Clone(), w2.T.Clone()
	nested := p.Mode == "nested" && depth == 0
	// mode "nested", a third of the stops that showed the old state: the
	// application does NOT repeat the operation but goes on differently (other
	// writes for the same version number, then a restart) - "the state before the
	// operation" must hold for whatever follows, not only for the retry.
	other := nested && state == "old" && rec.step.Op != drv.OpExpImp && r.Chance(1, 3)
	// mode "nested": a second stop at a boundary between two physical writes of
	// the recovery itself - the open on the crash image (which rebuilds the fast
	// index when the label does not fit) and what the application did next (the
	// repeated operation, or other writes and their commit). The image must again
	// show the state the first image showed or the state reached, and recover.
	secondStops := func() (string, *drv.Violation) {
		n2 := w2.Sim.LogLen()
		if n2 < 2 {
			return "", nil
		}
		rec2 := &stepRec{step: rec.step, idx: rec.idx, lo: 0, hi: n2, disk: w2.Sim, preM: stM, preT: stT, postM: w2.M.Clone(), postT: w2.T.Clone(), cleanAfter: rec.cleanAfter, orig: rec.self()}
		pick := map[int]bool{}
		max := 3
		if n2-1 <= max {
			for c := 1; c < n2; c++ {
				pick[c] = true
			}
		} else {
			pick[1], pick[n2-1] = true, true
			for len(pick) < max {
				pick[1+r.Intn(n2-1)] = true
			}
		}
		for c := 1; c < n2; c++ {
			if !pick[c] {
				continue
			}
			if ns != nil {
				ns.second++
			}
			if o2, v := checkCutN(p, recs, ri, rec2, c, cls, 1, ns); v != nil {
				return o2, v
			}
		}
		return "", nil
	}
	if other {
		if ns != nil {
			ns.other++
		}
		var us []string
		for k := range w2.Universe {
			us = append(us, k)
		}
		sort.Strings(us)
		var steps []drv.Step
		id := 1 << 21
		for i, n := 0, 1+r.Intn(3); i < n && len(us) > 0; i++ {
			k := []byte(us[r.Intn(len(us))])
			if r.Chance(1, 3) {
				steps = append(steps, drv.Step{ID: id, Op: drv.OpRemove, K: k})
			} else {
				steps = append(steps, drv.Step{ID: id, Op: drv.OpSet, K: k, V: []byte(fmt.Sprintf("o%d.%d", cut, i))})
			}
			id++
		}
		f, c := !w2.Fast, r.Pick(0, 2, 1000)
		steps = append(steps, drv.Step{ID: id, Op: drv.OpSave}, drv.Step{ID: id + 1, Op: drv.OpReopen, Fast: &f, Cache: &c})
		for i, st := range steps {
			if i == len(steps)-1 {
				// before the restart: a second stop inside the commit of the other writes
				if o2, v := secondStops(); v != nil {
					return "old+other+2nd:" + o2, v
				}
			}
			if v := w2.Apply(st); v != nil {
				return "old+other-fails", &drv.Violation{Prop: "C05", Oracle: "C05.continue", Symptom: "retry-diverges", Class: cls, Detail: fmt.Sprintf("%safter a stop at write %d of step %s the image showed the old state, but going on with other writes (%s) failed: %s", where, cut-rec.lo, rec.step.String(), st.String(), v.Error())}
			}
		}
		if v := w2.Guard("C05", "C05.continue", cls, func() *drv.Violation { return auditCrashState(w2) }); v != nil {
			return "old+other-diverges", &drv.Violation{Prop: "C05", Oracle: "C05.continue", Symptom: "retry-diverges", Class: cls, Detail: fmt.Sprintf("%safter a stop at write %d of step %s (old state), other writes, a commit and a restart: %s", where, cut-rec.lo, rec.step.String(), v.Error())}
		}
	}
	// retry of the interrupted operation (old state), then one more write + commit
	if state == "old" && rec.step.Op != drv.OpExpImp && !other {
		j := ri - 1
		for j >= 0 && !recs[j].cleanAfter {
			j--
		}
		for _, rr := range recs[j+1 : ri+1] {
			st := rr.step
			if st.Op == drv.OpReopen || st.Op == drv.OpLoad || st.Op == drv.OpDVF && rr != rec.self() {
				continue
			}
			if v := w2.Apply(st); v != nil {
				return "old+retry-fails", &drv.Violation{Prop: "C05", Oracle: "C05.retry", Symptom: "retry-diverges", Class: cls, Detail: fmt.Sprintf("%safter a stop at write %d of step %s the image showed the old state, but repeating the operation failed: %s", where, cut-rec.lo, rec.step.String(), v.Error())}
			}
		}
		if v := w2.Guard("C05", "C05.retry", cls, func() *drv.Violation { return auditCrashState(w2) }); v != nil {
			return "old+retry-diverges", &drv.Violation{Prop: "C05", Oracle: "C05.retry", Symptom: "retry-diverges", Class: cls, Detail: fmt.Sprintf("%safter a stop at write %d of step %s and a successful retry: %s", where, cut-rec.lo, rec.step.String(), v.Error())}
		}
	}
	if nested && !other {
		if o2, v := secondStops(); v != nil {
			return state + "+2nd:" + o2, v
		}
	}
	if w2.Clean() {
		steps := []drv.Step{{ID: 1 << 20, Op: drv.OpSet, K: []byte("c05-extra"), V: []byte(fmt.Sprintf("x%d", cut))}, {ID: 1<<20 + 1, Op: drv.OpSave}}
		for _, st := range steps {
			if v := w2.Apply(st); v != nil {
				return state + "+continue-fails", &drv.Violation{Prop: "C05", Oracle: "C05.continue", Symptom: "retry-diverges", Class: cls, Detail: fmt.Sprintf("after a stop at write %d of step %s (state %s) one more write+commit failed: %s", cut-rec.lo, rec.step.String(), state, v.Error())}
			}
		}
		if v := w2.Guard("C05", "C05.continue", cls, func() *drv.Violation { return auditCrashState(w2) }); v != nil {
			return state + "+continue-diverges", &drv.Violation{Prop: "C05", Oracle: "C05.continue", Symptom: "retry-diverges", Class: cls, Detail: fmt.Sprintf("after a stop at write %d of step %s (state %s) and one more commit: %s", cut-rec.lo, rec.step.String(), state, v.Error())}
		}
	}
	return state, nil
}

// intermediateState tells whether the reopened store of w is exactly the state
// of an operation over several versions that was carried out for some of them
// only: a rollback that stopped at a version between the target and the old
// latest version, or a deletion of old versions that stopped below its target.
// On success w's models are left at that state.
func intermediateState(w *drv.World, prop, oracle, cls, op string, oldM *ref.VMap, oldT *ref.Tree, newM *ref.VMap, newT *ref.Tree) (string, bool) {
	try := func(set func()) bool {
		w.M, w.T = oldM.Clone(), oldT.Clone()
		set()
		v := w.Guard(prop, oracle, cls, func() *drv.Violation { return auditCrashState(w) })
		if v != nil && os.Getenv("VERIF_DEBUG_INTERMEDIATE") != "" {
			fmt.Fprintf(os.Stderr, "intermediate candidate rejected: %s\n", firstLine(v.Detail))
		}
		return v == nil
	}
	switch op {
	case drv.OpLVFO, drv.OpDVF, "p.lvfo", "p.dvf":
		for t := oldT.Latest - 1; t > newT.Latest; t-- {
			if !oldM.Has(t) {
				continue
			}
			t := t
			if try(func() { w.M.RollbackTo(t); w.T.RollbackTo(t) }) {
				return fmt.Sprintf("the rollback from version %d to version %d stopped at version %d", oldT.Latest, newT.Latest, t), true
			}
		}
	case drv.OpPrune, "p.prune":
		nv := newM.Versions()
		if len(nv) == 0 {
			return "", false
		}
		var below []int64
		for _, t := range oldM.Versions() {
			if t < nv[0] {
				below = append(below, t)
			}
		}
		for i := 0; i+1 < len(below); i++ {
			t := below[i]
			if try(func() { w.M.PruneTo(t); w.T.PruneTo(t) }) {
				return fmt.Sprintf("the deletion of the versions up to %d stopped after version %d", below[len(below)-1], t), true
			}
		}
	}
	return "", false
}

func universeOf(recs []*stepRec) map[string]bool {
	u := map[string]bool{}
	for _, r := range recs {
		if len(r.step.K) > 0 {
			u[string(r.step.K)] = true
		}
	}
	return u
}

func sortedKeys(m map[string]int) []string {
	ks := make([]string, 0, len(m))
	for k := range m {
		ks = append(ks, k)
	}
	sort.Strings(ks)
	return ks
}

func init() {
	Register(&Check{ID: "C05", Level: "fault_enumeration", Engine: "drv", QuickRuns: 1500, ThoroughS: 600, Components: stdComponents, RunTimeout: 240 * time.Second,
		Assumptions: []string{
			"storage model of the statement: each underlying batch write is atomic and writes are totally ordered (no torn batches, no reordering, no lost un-synced writes)",
			"cut positions are enumerated exhaustively per explored history; histories, configurations and the reopening configuration are sampled",
			"reference models R1/R2 are the specification of 'state before' and 'state after'",
		},
		Rule: "one run = one fault-free execution of a generated history on the simulated disk recording the physical write log; then for EVERY multi-write step (commit, deletion of old versions, rollback, import commit, open that builds or rebuilds the fast index) and EVERY boundary strictly between two of its physical writes one evaluation: a fresh tree is opened on the disk image at that boundary (seeded fast/cache configuration) and the whole observable state (version APIs, every read of every retained version through tree walk, fast path and iteration, hashes) must equal the model before or the model after the step; if old, the operation is repeated and must reach the crash-free result; then one more write+commit must be canonical. A third of the runs (mode nested) go one level deeper: a SECOND stop at a boundary between two physical writes of the recovery itself (the open on the crash image, which rebuilds the fast index when its label does not fit, and the repeated operation) must again show the first image's state or the final state and recover the same way; and after a third of the stops that show the old state the application does not repeat the operation but commits OTHER writes under the same version number with a handle whose index setting is the opposite of the next one, restarts, and must read exactly those writes through every read path. evaluations = first-level cuts (second stops and other continuations are counted under stats); distinct non-trivial = plans with >=1 cut",
		Gen: func(seed uint64, run int, tier string) *drv.Plan {
			p := genPlan("C05", seed, run, c05Bias(tier))
			// one import of ~21 000 nodes per quick batch (a few per thorough run)
			if (tier == "thorough" && run%500 == 77) || (tier != "thorough" && run%1500 == 77) {
				p.Mode = "big-import"
				p.Steps = nil
				return p
			}
			if run%10 == 3 {
				return genC05Legacy(seed, run, tier)
			}
			if run%10 == 7 || run%10 == 2 || os.Getenv("VERIF_C05_ASYNC_ONLY") != "" {
				return genC05Async(seed, run, tier)
			}
			// a third of the runs: second stops inside the recovery, and stops after
			// which the application goes on differently (see checkCutN)
			if run%3 == 1 {
				p.Mode = "nested"
			}
			return p
		},
		Exec: execC05})
}
