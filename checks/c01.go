package checks

import (
	"fmt"

	"verif/drv"
	"verif/sim"
)

func mergeProbes(dst map[string]int, src drv.Probes) {
	for k, v := range src {
		dst[k] += v
	}
}

// stdOut fills the common Out fields from lock-step results.
func stdOut(p *drv.Plan, results ...*drv.Result) *Out {
	out := &Out{Evals: 1, Probes: map[string]int{}, Stats: map[string]int{}}
	var tr drv.Tracer
	for _, r := range results {
		if r == nil {
			continue
		}
		if r.Vio != nil {
			out.Violations = append(out.Violations, r.Vio)
		}
		if r.Foreign != nil && out.Foreign == nil {
			out.Foreign = r.Foreign
		}
		mergeProbes(out.Probes, r.W.P)
		out.Stats["steps"] += r.Steps
		out.States = append(out.States, r.States...)
		tr.Add(r.Trace)
		r.W.Cleanup()
	}
	out.Trace = fmt.Sprintf("%016x", tr.Sum())
	out.Sample = p.Compact()
	return out
}

func c01Bias(tier string) drv.Bias {
	b := drv.DefaultBias()
	b.Backends = []string{"simdb", "simdb", "simdb", "simdb", "simdb", "simdb", "memdb", "leveldb", "prefix-memdb", "prefix-leveldb", "prefix-simdb"}
	if tier == "thorough" {
		b.MaxVersions = 30
		b.MediumMax = 64
	}
	return b
}

func init() {
	Register(&Check{
		ID:     "C01",
		Level:  "exploration",
		Engine: "drv",
		Rule: "one evaluation = one generated history executed in lock-step on the real MutableTree and on the versioned-map model R1 under two configurations (twin), " +
			"with every read of the working state and of every retained version compared after every step; " +
			"distinct = distinct plan digest; non-trivial = at least one version committed and at least 10 read comparisons performed before the run ended",
		Assumptions: []string{
			"R1 (ref/vmap.go) is the specification of the versioned map",
			"keys are non-empty (the SDK forbids empty keys)",
			"InitialVersion 0 means 'not configured'",
			"GoLevelDB runs on real files in a scratch directory and is only restarted cleanly",
		},
		Components: map[string]string{"tree/nodedb/batch/cache/iterators": "real", "storage": "SimDB (stub of the disk); real MemDB/GoLevelDB/PrefixDB in the backend dimension", "oracle": "R1 versioned map"},
		QuickRuns:  1600,
		ThoroughS:  480,
		Gen: func(seed uint64, run int, tier string) *drv.Plan {
			r := sim.Sub(seed, "C01", run)
			g := drv.NewGen(r, c01Bias(tier))
			p := &drv.Plan{Engine: "drv"}
			p.Config = g.Config()
			p.Steps = g.History()
			// configuration twin: same history, second configuration
			g2 := drv.NewGen(sim.Sub(seed, "C01-twin", run), c01Bias(tier))
			tw := g2.Config()
			tw.InitVer, tw.InitMode = p.Config.InitVer, p.Config.InitMode
			p.Twin = &tw
			return p
		},
		Exec: execC01,
	})
}

func execC01(p *drv.Plan) *Out {
	audits := 0
	hooks := drv.Hooks{
		Prop: "C01",
		After: func(w *drv.World, s drv.Step) *drv.Violation {
			keys := w.ProbeKeys()
			if v := w.AuditWorking("C01", "C01.reads", keys); v != nil {
				return v
			}
			audits += len(keys)
			vers := w.M.Versions()
			if len(vers) > 6 {
				// working tree + 3 PRNG-chosen versions per step; everything at the end
				r := drv.SubRand(p, "versions", s.ID)
				pick := make([]int64, 0, 3)
				for i := 0; i < 3; i++ {
					pick = append(pick, vers[r.Intn(len(vers))])
				}
				vers = pick
			}
			for _, ver := range vers {
				if v := w.AuditVersion("C01", "C01.reads", ver, keys); v != nil {
					return v
				}
				audits += len(keys)
			}
			return nil
		},
		End: func(w *drv.World) *drv.Violation { return w.AuditAll("C01", "C01.reads") },
	}
	r1 := drv.RunPlan(p, p.Config, hooks)
	var r2 *drv.Result
	if p.Twin != nil && r1.Vio == nil {
		r2 = drv.RunPlan(p, *p.Twin, hooks)
	}
	out := stdOut(p, r1, r2)
	out.Stats["read_comparisons"] = audits
	out.NonTrivial = r1.W.M.Latest > 0 && audits >= 10
	return out
}
