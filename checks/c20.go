package checks

import (
	"time"

	"verif/drv"
	"verif/drv2"
	"verif/sim"
)

func init() {
	Register(&Check{
		ID:     "C20",
		Level:  "exploration",
		Engine: "drv2",
		Rule: "one evaluation = one generated normal-form history on the real SQLite-backed v2 Tree with PRNG-placed close+reopen, DeleteVersionsTo(n) whose asynchronous progress is granted step by step by the plan " +
			"(0, 1, few, all steps per writer loop; saves and closes interrupt half-done prunes), loads of older versions followed by the same write sets, SaveSnapshot/LoadSnapshot and Export(pre|post)+WriteSnapshot+ImportSnapshotFromTable; " +
			"LoadVersion(t) on a fresh handle for every version t (hash, Get/Has of all keys and neighbours, Size, Height, iterators against R1/R2; demanded for the latest version and every version at or above the last checkpoint not after a prune point); " +
			"distinct = distinct plan digest; non-trivial = at least one checked reload of a version that is not a checkpoint (replay of the leaf change log) and at least 2 commits",
		Assumptions: []string{
			"R1/R2 are the specification of contents and root hashes",
			"histories are in v2's normal form; continuing from an older version re-applies the same write sets as the uninterrupted run",
			"restart = Close + new SqliteDb/Tree on the same directory in the same process (clean close, no crash cuts; SQLite durability is not modelled)",
			"prune progress is owned by the simulator (verif seams in v2/sqlite_writer.go): prune steps only run when granted, main-thread operations and prune steps never overlap",
			"DeleteVersionsTo(n) is only issued with 1 <= n <= latest; snapshots are only taken while no prune is in progress",
		},
		Components: map[string]string{"v2 tree/sqlite/writer loops/snapshot/export": "real", "v2 storage": "real SQLite files (scratch directory)", "oracle": "R1 versioned map, R2 independent IAVL", "writer-loop schedule / prune progress": "owned by the simulator through build-tag-guarded seams"},
		QuickRuns:  2000,
		ThoroughS:  480,
		RunTimeout: 120 * time.Second,
		Gen: func(seed uint64, run int, tier string) *drv.Plan {
			return drv2.GenC20(sim.Sub(seed, "C20", run), tier)
		},
		Exec:   execC20,
		Shrink: v2Shrink,
	})
}

func execC20(p *drv.Plan) *Out {
	res := drv2.Run(p, "C20", false, nil)
	out := v2Out(p, res)
	if res.W != nil {
		out.NonTrivial = res.W.Commits >= 2 && res.W.P["load_just_after_checkpoint"]+res.W.P["load_far_after_checkpoint"] > 0
		res.W.Cleanup()
	}
	return out
}
