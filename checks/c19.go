package checks

import (
	"os"
	"time"

	"verif/drv"
	"verif/drv2"
	"verif/sim"
)

func v2Out(p *drv.Plan, res *drv2.Result) *Out {
	out := &Out{Evals: 1, Probes: map[string]int{}, Stats: map[string]int{}}
	out.Violations = res.Violations()
	out.Sample = drv2.Compact(p)
	if res.W != nil {
		mergeProbes(out.Probes, res.W.P)
		for k, v := range res.W.Stats {
			out.Stats[k] += v
		}
		out.Trace = res.W.Trace()
	}
	out.Stats["steps"] += res.Steps
	return out
}

// v2Shrink minimises a v2 plan with every candidate executed in a fresh
// process: v2 can end the process (os.Exit in its writer loops, panics in the
// goroutines of Export), which must never happen inside the coordinator.
func v2Shrink(c *Check, p *drv.Plan, want *drv.Violation) *drv.Plan {
	self, err := os.Executable()
	if err != nil {
		return p
	}
	eval := func(q *drv.Plan) *drv.Violation {
		out, died, kind, stderr := ExecInSubprocess(c, q, self)
		if died {
			if v := crashViolation(c, kind, stderr); v.SameClass(want) {
				return v
			}
			return nil
		}
		if out != nil {
			for _, v := range out.Violations {
				if v.SameClass(want) {
					return v
				}
			}
		}
		return nil
	}
	budget := 240
	deadline := time.Now().Add(75 * time.Second)
	if eval(p) == nil {
		return p
	}
	return DDMinSteps(p, eval, &budget, deadline)
}

func init() {
	Register(&Check{
		ID:     "C19",
		Level:  "exploration",
		Engine: "drv2",
		Rule: "one evaluation = one generated normal-form history (sets, removals, empty versions, drains to the empty tree) under one v2 option combination " +
			"(checkpoint interval x checkpoint memory x height filter x eviction depth x sharding) executed in lock-step on the real SQLite-backed v2 Tree, on v1 MutableTree (SimDB) and on R1/R2; " +
			"every commit compares the v2, v1 and R2 root hashes, every step compares Get/Has of all keys and their neighbours, Size, Height and forward / inclusive / reverse iterators over PRNG-chosen bound pairs with R1; " +
			"distinct = distinct plan digest; non-trivial = at least 2 commits and at least one commit made after a checkpoint at which the tree had branch nodes and nodes were dropped from memory (height filter on, or eviction depth below the tree height)",
		Assumptions: []string{
			"R1 (ref/vmap.go) is the specification of the map, R2 (ref/iavl.go) of the root hashes",
			"histories are in v2's normal form: per version each key is written or removed at most once; keys and values are non-nil, keys non-empty",
			"leaf values are stored (StateStorage = true); SQLite runs on real files in a scratch directory",
			"the two halves of a SaveVersion (saveBranches, saveLeaves) are ordered by the plan (verif seam), both orders are explored",
		},
		Components: map[string]string{"v2 tree/node/pool/iterator/sqlite writer": "real", "v2 storage": "real SQLite files (scratch directory)", "v1": "real MutableTree on SimDB", "oracle": "R1 versioned map, R2 independent IAVL", "writer-loop schedule": "owned by the simulator through build-tag-guarded seams"},
		QuickRuns:  8000,
		ThoroughS:  480,
		RunTimeout: 120 * time.Second,
		Gen: func(seed uint64, run int, tier string) *drv.Plan {
			return drv2.GenC19(sim.Sub(seed, "C19", run), tier)
		},
		Exec:   execC19,
		Shrink: v2Shrink,
	})
}

func execC19(p *drv.Plan) *Out {
	res := drv2.Run(p, "C19", true, func(w *drv2.World, s drv.Step) *drv.Violation {
		n := 8
		if s.Op == drv.OpSave {
			n = 24
		}
		return w.AuditWorking(sim.Sub(uint64(s.ID), "C19-audit"), n)
	})
	out := v2Out(p, res)
	if res.W != nil {
		out.NonTrivial = res.W.Commits >= 2 && res.W.CommitAfterEvictingCheckpoint()
		res.W.Cleanup()
	}
	return out
}
