package checks

import (
	"fmt"

	"github.com/cosmos/iavl"

	"verif/drv"
	"verif/ref"
	"verif/sim"
)

var stdComponents = map[string]string{
	"tree/nodedb/batch/cache/iterators/proofs/import/export": "real",
	"storage": "SimDB (stub of the disk: sorted map + ordered log of atomic batch writes)",
	"oracle":  "independent reference models under /verif/ref",
}

func genPlan(tag string, seed uint64, run int, b drv.Bias) *drv.Plan {
	r := sim.Sub(seed, tag, run)
	g := drv.NewGen(r, b)
	p := &drv.Plan{Engine: "drv"}
	p.Config = g.Config()
	p.Steps = g.History()
	return p
}

func isStructural(op string) bool {
	switch op {
	case drv.OpSave, drv.OpPrune, drv.OpLVFO, drv.OpDVF, drv.OpReopen, drv.OpLoad, drv.OpExpImp, drv.OpDiscard:
		return true
	}
	return false
}

// ----------------------------------------------------------------------- C02

func c02Bias(tier string) drv.Bias {
	b := drv.DefaultBias()
	b.Reads = 45
	b.ExpImp = 8
	b.Prune = 12
	b.LVFO = 8
	b.DVF = 3
	b.Reopen = 14
	b.InitVers = []int64{0, 0, 1, 7, 10, 1000, 1 << 40}
	if tier == "thorough" {
		b.MaxVersions = 25
		b.MediumMax = 64
	}
	return b
}

func execC02(p *drv.Plan) *Out {
	hashes := 0
	hooks := drv.Hooks{
		Prop: "C02",
		After: func(w *drv.World, s drv.Step) *drv.Violation {
			// oracle-side read-only calls are part of the "programs" quantifier too:
			// proofs on the working tree, lookups, iteration
			if w.Tree.Size() > 0 {
				keys := w.ProbeKeys()
				r := drv.SubRand(p, "c02", s.ID)
				_, _ = w.Tree.GetProof(keys[r.Intn(len(keys))])
			}
			hashes += 2 + len(w.M.Committed)
			return w.AuditHashes()
		},
	}
	r1 := drv.RunPlan(p, p.Config, hooks)
	if r1.Vio == nil && r1.Foreign != nil && r1.Foreign.Oracle == "C10.import-hash" {
		// "the same ... after export/import" is part of this statement too
		r1.Vio, r1.Foreign = relabel(r1.Foreign, "C02", "expimp"), nil
	}
	if r1.Vio != nil && r1.Vio.Prop == "C02" {
		// read-free twin: same writes, no read-only calls at all
		q := p.Clone()
		q.Steps = nil
		for _, s := range p.Steps {
			if s.Op != drv.OpReads {
				q.Steps = append(q.Steps, s)
			}
			if s.ID == r1.Vio.StepID {
				break // the twin ends where the violation was seen (later steps may discard the state)
			}
		}
		// (the twin makes no read-only call at all while it runs: only the
		// hashes its commits return are compared, and all hashes once at the end)
		r2 := drv.RunPlan(q, q.Config, drv.Hooks{Prop: "C02"})
		// (any failure of the twin counts: without reads the history goes wrong as well)
		twinBad := r2.Vio != nil || r2.Foreign != nil
		if !twinBad && r2.Foreign == nil && r2.W.Tree != nil {
			twinBad = r2.W.Guard("C02", "C02.hash", "twin", func() *drv.Violation { return r2.W.AuditHashes() }) != nil
		}
		if twinBad {
			r1.Vio.Class = "write-path/" + r1.Vio.Class
		} else {
			r1.Vio.Class = "read-changed-hash/" + r1.Vio.Class
		}
		r2.W.Cleanup()
	}
	out := stdOut(p, r1)
	out.Stats["hash_comparisons"] = hashes
	out.NonTrivial = r1.W.M.Latest > 0 && hashes >= 4
	return out
}

// ----------------------------------------------------------------------- C03

func c03Bias(tier string) drv.Bias {
	b := drv.DefaultBias()
	b.NoEmptyValues = true
	b.SetNil = 0
	b.Tiny, b.Small, b.MediumMax = 35, 45, 20
	b.Prune, b.Reopen = 15, 15
	b.MaxVersions = 8
	b.InitVers = []int64{0, 0, 1, 7, 1 << 40}
	if tier == "thorough" {
		b.MaxVersions = 14
		b.MediumMax = 30
	}
	return b
}

func execC03(p *drv.Plan) *Out {
	st := &drv.ProofStats{}
	audit := func(w *drv.World, id int) *drv.Violation {
		return w.AuditAllProofs(drv.SubRand(p, "c03", id), st)
	}
	hooks := drv.Hooks{
		Prop: "C03",
		After: func(w *drv.World, s drv.Step) *drv.Violation {
			if s.Op == drv.OpSave || s.Op == drv.OpPrune || s.Op == drv.OpReopen {
				return audit(w, s.ID)
			}
			// the working tree with uncommitted writes (also before the very
			// first commit) is a state of its own
			if (s.Op == drv.OpSet || s.Op == drv.OpRemove) && (s.ID%3 == 0 || w.M.Latest == 0) {
				return audit(w, s.ID)
			}
			return nil
		},
		End: func(w *drv.World) *drv.Violation { return audit(w, -1) },
	}
	r1 := drv.RunPlan(p, p.Config, hooks)
	out := stdOut(p, r1)
	out.Stats["proofs_verified"] = st.Positive
	out.Stats["negative_checks"] = st.Negative
	out.Evals = 1
	out.NonTrivial = st.Positive >= 4 && st.Negative >= 4
	return out
}

// ----------------------------------------------------------------------- C07

func c07Bias(tier string) drv.Bias {
	b := drv.DefaultBias()
	b.Reopen, b.Load, b.Recommit = 35, 15, 30
	b.LVFO, b.DVF, b.Prune, b.ExpImp, b.Discard = 8, 3, 8, 5, 10
	b.RemoveShare = 40
	b.Tiny, b.Small = 35, 45
	b.InitVers = []int64{0, 0, 0, 5}
	if tier == "thorough" {
		b.MaxVersions = 25
	}
	return b
}

func execC07(p *drv.Plan) *Out {
	raw := 0
	hooks := drv.Hooks{
		Prop: "C07",
		After: func(w *drv.World, s drv.Step) *drv.Violation {
			// The reads are audited on index-less handles too: such a handle does
			// not maintain the index, so nothing it answers may come from the
			// (stale) index an earlier process left behind (seed C07-3B).
			keys := w.ProbeKeys()
			if v := w.AuditWorking("C07", "C07.reads", keys); v != nil {
				if !w.Fast {
					v.Class += "/index-off"
				}
				return v
			}
			for _, ver := range w.M.Versions() {
				if v := w.AuditVersion("C07", "C07.reads", ver, keys); v != nil {
					if !w.Fast {
						v.Class += "/index-off"
					}
					return v
				}
			}
			if !w.Fast {
				return nil
			}
			if isStructural(s.Op) && s.Op != drv.OpDiscard {
				raw++
				return w.AuditFastIndex("C07")
			}
			return nil
		},
	}
	r1 := drv.RunPlan(p, p.Config, hooks)
	out := stdOut(p, r1)
	out.Stats["raw_index_audits"] = raw
	out.NonTrivial = raw >= 2 && r1.W.M.Latest > 0
	return out
}

// ----------------------------------------------------------------------- C08

func c08Bias(tier string) drv.Bias {
	b := drv.DefaultBias()
	b.Tiny, b.Small, b.MediumMax = 30, 50, 14
	b.MaxVersions = 6
	b.LVFO, b.DVF, b.Prune = 3, 0, 5
	b.Reopen = 20
	b.InitVers = []int64{0}
	if tier == "thorough" {
		b.MaxVersions = 10
		b.MediumMax = 24
	}
	return b
}

func execC08(p *drv.Plan) *Out {
	st := map[string]int{}
	auditState := func(w *drv.World, id int) *drv.Violation {
		r := drv.SubRand(p, "c08", id)
		// keys existing only in the overlay / only on disk are bounds too
		var extra [][]byte
		for k := range w.Universe {
			extra = append(extra, []byte(k))
		}
		if v := w.AuditIterators("working", nil, w.Tree, w.M.Working, extra, r, st); v != nil {
			return v
		}
		vers := w.M.Versions()
		for i, ver := range vers {
			if len(vers) > 3 && i < len(vers)-3 {
				continue
			}
			it, err := w.Tree.GetImmutable(ver)
			if err != nil {
				return &drv.Violation{Prop: "C08", Oracle: "C08.iterator", Symptom: "version-unreadable", Class: "committed", Detail: fmt.Sprintf("GetImmutable(%d): %v", ver, err)}
			}
			if v := w.AuditIterators(fmt.Sprintf("v%d", ver), it, nil, w.M.Committed[ver], extra, r, st); v != nil {
				return v
			}
		}
		return nil
	}
	lastWrite := false
	hooks := drv.Hooks{
		Prop:   "C08",
		Before: func(w *drv.World, s drv.Step) {},
		After: func(w *drv.World, s drv.Step) *drv.Violation {
			isW := s.Op == drv.OpSet || s.Op == drv.OpRemove
			defer func() { lastWrite = isW }()
			// audit the working state with uncommitted changes (right before it
			// is committed or discarded we have seen all of them: audit after the
			// last write of a burst, i.e. when the next step is not a write, is
			// approximated by auditing after every third write) and after every
			// structural step
			if isW && s.ID%3 != 0 {
				return nil
			}
			return auditState(w, s.ID)
		},
		End: func(w *drv.World) *drv.Violation { return auditState(w, -1) },
	}
	_ = lastWrite
	r1 := drv.RunPlan(p, p.Config, hooks)
	out := stdOut(p, r1)
	for k, v := range st {
		out.Stats["iter."+k] = v
	}
	out.NonTrivial = st["nonempty_ranges"] >= 4
	return out
}

// ----------------------------------------------------------------------- C11

func c11Bias(tier string, r *sim.Rand) drv.Bias {
	b := drv.DefaultBias()
	b.Order = []string{"", "asc", "desc", "alt"}[r.Intn(4)]
	b.Tiny, b.Small, b.MediumMax = 10, 20, 64
	b.MaxOpsPerVersion = 16
	b.RemoveShare = 35
	b.SetNil = 0
	b.Prune, b.LVFO, b.DVF, b.Load, b.Recommit = 6, 2, 0, 0, 0
	b.MaxVersions = 8
	b.InitVers = []int64{0}
	if tier == "thorough" {
		b.MediumMax = 200
		b.MaxOpsPerVersion = 40
		b.MaxVersions = 12
	}
	return b
}

// readBound measures storage reads per lookup on a cache-less fresh handle.
func readBound(w *drv.World, p *drv.Plan, st map[string]int) *drv.Violation {
	if w.Sim == nil || w.M.Latest == 0 {
		return nil
	}
	r := drv.SubRand(p, "c11-bound")
	h := iavl.NewMutableTree(w.DB, 0, r.Chance(1, 2), iavl.NewNopLogger())
	defer h.Close()
	if _, err := h.Load(); err != nil {
		return &drv.Violation{Prop: "C11", Oracle: "C11.read-bound", Symptom: "load-fails", Class: "bound", Detail: err.Error()}
	}
	vers := w.M.Versions()
	for i, ver := range vers {
		if len(vers) > 3 && i < len(vers)-3 {
			continue
		}
		it, err := h.GetImmutable(ver)
		if err != nil {
			return &drv.Violation{Prop: "C11", Oracle: "C11.read-bound", Symptom: "version-unreadable", Class: "bound", Detail: err.Error()}
		}
		ht := int(it.Height())
		n := int(it.Size())
		measure := func(name string, limit int, f func()) *drv.Violation {
			w.Sim.BeginStep(-1)
			f()
			got := w.Sim.SpaceReads('s')
			st["lookups_measured"]++
			if got > st["max_reads_"+name] {
				st["max_reads_"+name] = got
			}
			if got > limit {
				return &drv.Violation{Prop: "C11", Oracle: "C11.read-bound", Symptom: "too-many-reads", Class: name, Detail: fmt.Sprintf("v%d (height %d, size %d): %s read %d stored nodes, bound %d", ver, ht, n, name, got, limit)}
			}
			return nil
		}
		for _, k := range w.ProbeKeys() {
			k := k
			if v := measure("Get", 2*ht+2, func() { _, _ = it.Get(k) }); v != nil {
				return v
			}
			if v := measure("GetWithIndex", 2*ht+2, func() { _, _, _ = it.GetWithIndex(k) }); v != nil {
				return v
			}
			if v := measure("Has", 2*ht+2, func() { _, _ = it.Has(k) }); v != nil {
				return v
			}
			if n > 0 {
				if v := measure("GetProof", 10*ht+10, func() { _, _ = it.GetProof(k) }); v != nil {
					return v
				}
			}
		}
		ranks := make([]int, 0, n+2)
		if n <= 600 {
			for i := -1; i <= n; i++ {
				ranks = append(ranks, i)
			}
		} else {
			ranks = append(ranks, -1, 0, 1, n/2, n-2, n-1, n)
			for i := 0; i < 60; i++ {
				ranks = append(ranks, r.Intn(n))
			}
		}
		for _, i := range ranks {
			i := i
			if v := measure("GetByIndex", 2*ht+2, func() { _, _, _ = it.GetByIndex(int64(i)) }); v != nil {
				return v
			}
		}
	}
	return nil
}

// execC11Tall measures the read bounds on a tall, packed tree (thousands of
// ascending keys): the proof bound 10h+10 only becomes tight from height 12 on.
func execC11Tall(p *drv.Plan) *Out {
	st := map[string]int{}
	out := &Out{Evals: 1, Probes: map[string]int{"mode.tall": 1}, Stats: map[string]int{}}
	cfg := p.Config
	cfg.InitVer, cfg.InitMode, cfg.Backend = 0, "", "simdb"
	w := drv.NewWorld(cfg)
	if err := w.Open(); err != nil {
		return out
	}
	defer w.Cleanup()
	r := drv.SubRand(p, "c11-tall")
	n := r.Pick(4096, 5000, 8192)
	desc := r.Chance(1, 3)
	for i := 0; i < n; i++ {
		j := i
		if desc {
			j = n - 1 - i
		}
		k := []byte(fmt.Sprintf("t%06d", j))
		v := []byte(fmt.Sprintf("v%d", i))
		w.Tree.Set(k, v)
		w.M.Set(k, v)
		w.T.Set(k, v)
		if i == n/2 {
			w.Tree.SaveVersion()
			w.M.Commit()
			w.T.Commit()
		}
		if i%(n/24) == 0 || i == n-1 || i == 0 {
			w.Universe[string(k)] = true
		}
	}
	w.Tree.SaveVersion()
	w.M.Commit()
	w.T.Commit()
	out.Sample = fmt.Sprintf("tall: %d keys inserted in %s order, two versions, read bounds measured on a sample of keys and ranks", n, map[bool]string{true: "descending", false: "ascending"}[desc])
	if v := w.AuditShape(); v != nil {
		out.Violations = append(out.Violations, v)
		return out
	}
	st["shape_audits"]++
	if v := readBound(w, p, st); v != nil {
		out.Violations = append(out.Violations, v)
	}
	for k, v := range st {
		out.Stats[k] = v
	}
	out.Stats["tall_height"] = int(w.Tree.Height())
	out.NonTrivial = st["lookups_measured"] > 10
	return out
}

func execC11(p *drv.Plan) *Out {
	if p.Mode == "tall" {
		return execC11Tall(p)
	}
	st := map[string]int{}
	hooks := drv.Hooks{
		Prop: "C11",
		After: func(w *drv.World, s drv.Step) *drv.Violation {
			if v := w.AuditShape(); v != nil {
				return v
			}
			st["shape_audits"]++
			if s.Op == drv.OpSave || s.ID%4 == 0 {
				keys := w.ProbeKeys()
				if v := w.AuditWorking("C11", "C11.rank-select", keys); v != nil {
					return v
				}
				if w.M.Latest > 0 {
					if v := w.AuditVersion("C11", "C11.rank-select", w.M.Latest, keys); v != nil {
						return v
					}
				}
			}
			return nil
		},
		End: func(w *drv.World) *drv.Violation {
			if !w.Clean() {
				return nil
			}
			return readBound(w, p, st)
		},
	}
	r1 := drv.RunPlan(p, p.Config, hooks)
	out := stdOut(p, r1)
	for k, v := range st {
		out.Stats[k] = v
	}
	out.Probes["rot.LL"] = r1.W.T.P.LL
	out.Probes["rot.LR"] = r1.W.T.P.LR
	out.Probes["rot.RR"] = r1.W.T.P.RR
	out.Probes["rot.RL"] = r1.W.T.P.RL
	out.NonTrivial = st["shape_audits"] >= 3 && ref.Size(r1.W.T.Work) >= 2
	return out
}

// ----------------------------------------------------------------------- C12

func c12Bias(tier string) drv.Bias {
	b := drv.DefaultBias()
	b.Prune, b.LVFO, b.DVF, b.Reopen, b.ExpImp = 35, 10, 5, 12, 6
	b.NoopVersion = 25
	b.Load, b.Recommit = 3, 10
	b.InitVers = []int64{0, 0, 3, 1000}
	if tier == "thorough" {
		b.MaxVersions = 30
	}
	return b
}

func execStore(prop string, format bool) func(p *drv.Plan) *Out {
	return func(p *drv.Plan) *Out {
		audits := 0
		hooks := drv.Hooks{
			Prop: prop,
			After: func(w *drv.World, s drv.Step) *drv.Violation {
				if !isStructural(s.Op) {
					return nil
				}
				audits++
				if v := w.AuditStore(prop, format, w.Imported); v != nil {
					return v
				}
				if w.Fast && s.Op != drv.OpDiscard {
					return w.AuditFastIndex(prop)
				}
				return nil
			},
		}
		r1 := drv.RunPlan(p, p.Config, hooks)
		out := stdOut(p, r1)
		out.Stats["store_audits"] = audits
		out.NonTrivial = audits >= 2 && r1.W.M.Latest > 0
		return out
	}
}

// ----------------------------------------------------------------------- C14

func c14Bias(tier string) drv.Bias {
	b := drv.DefaultBias()
	b.NoopVersion = 30
	b.Tiny = 55
	b.Load, b.Recommit, b.BadLoad = 25, 40, 25
	b.Prune, b.LVFO, b.DVF, b.Reopen = 25, 8, 4, 20
	b.InitVers = []int64{0, 0, 1, 9, 1 << 40}
	if tier == "thorough" {
		b.MaxVersions = 25
	}
	return b
}

func execC14(p *drv.Plan) *Out {
	audits := 0
	hooks := drv.Hooks{
		Prop: "C14",
		After: func(w *drv.World, s drv.Step) *drv.Violation {
			if !isStructural(s.Op) && s.Op != drv.OpBadLoad {
				return nil
			}
			audits++
			if v := w.AuditVersions("live", true); v != nil {
				return v
			}
			if s.Op == drv.OpBadLoad {
				// "... and leaves the tree usable": every read path of the working
				// state, uncommitted changes included
				if v := w.AuditWorking("C14", "C14.usable-after-failed-load", w.ProbeKeys()); v != nil {
					return v
				}
			}
			// ... and again after a clean restart (a second, read-only handle)
			h := w.NewHandle(false, 0)
			defer h.Close()
			if _, err := h.Load(); err != nil {
				return &drv.Violation{Prop: "C14", Oracle: "C14.load", Symptom: "load-fails", Class: "restart", Detail: fmt.Sprintf("Load() on a fresh handle: %v", err), StepID: s.ID}
			}
			return w.WithHandle(h, func() *drv.Violation { return w.AuditVersions("restarted", false) })
		},
	}
	r1 := drv.RunPlan(p, p.Config, hooks)
	out := stdOut(p, r1)
	out.Stats["version_audits"] = audits
	out.NonTrivial = audits >= 2 && r1.W.M.Latest > 0
	return out
}

func init() {
	assume := []string{
		"reference models R1/R2/R3 under /verif/ref are the specification (written from docs and the property statements, not from iavl code)",
		"SimDB: batch writes are atomic and totally ordered; keys non-empty; InitialVersion 0 = not configured",
		"seeded sampling of histories and configurations: evidence within the stated bounds, not a proof",
	}
	Register(&Check{ID: "C02", Level: "exploration", Engine: "drv", QuickRuns: 4000, ThoroughS: 480, Assumptions: assume, Components: stdComponents,
		Rule: "one evaluation = one generated history (writes, commits, reopen/prune/rollback/export-import points, bundles of read-only calls incl. proofs on the working tree) executed on the real tree; after every step Hash, WorkingHash and every retained version's hash are compared with the independent IAVL+ implementation R2, which never sees reads, reopenings or pruning; on a mismatch a read-free twin classifies it; distinct = plan digest; non-trivial = >=1 commit and >=4 hash comparisons",
		Gen:  func(seed uint64, run int, tier string) *drv.Plan { return genPlan("C02", seed, run, c02Bias(tier)) }, Exec: execC02})
	Register(&Check{ID: "C03", Level: "exploration", Engine: "drv", QuickRuns: 1600, ThoroughS: 480, Components: stdComponents,
		Assumptions: append([]string{"the ics23 verifier (third-party, pinned) is trusted", "empty values are excluded: ICS-23 existence proofs cannot carry an empty value", "no fault or schedule dimension: the simulator contributes the reachable states (histories x restarts x pruning x configurations)"}, assume...),
		Rule:        "one evaluation = one history; after every commit/prune/reopen and at the end, for the working tree and every retained version and every probe key (present keys, absent below/above/between, prefixes, extensions): proof of the right kind, verified with ics23 against R2's root, exact neighbours, error cases, and negative cross-checks (other value, other keys, opposite claim, roots of other versions); non-trivial = >=4 positive and >=4 negative verifications",
		Gen:         func(seed uint64, run int, tier string) *drv.Plan { return genPlan("C03", seed, run, c03Bias(tier)) }, Exec: execC03})
	Register(&Check{ID: "C07", Level: "exploration", Engine: "drv", QuickRuns: 3000, ThoroughS: 480, Assumptions: assume, Components: stdComponents,
		Rule: "one evaluation = one history in which every (re)open independently chooses fast index on/off and the version to load; whenever the index is enabled, after every step every fast-path read equals the tree walk and R1 for the working state and every retained version, and after every commit/open/rollback/import the raw f-entries and the storage_version label on the simulated disk are decoded with the independent codec and compared with R1's latest version; non-trivial = >=2 raw index audits",
		Gen:  func(seed uint64, run int, tier string) *drv.Plan { return genPlan("C07", seed, run, c07Bias(tier)) }, Exec: execC07})
	Register(&Check{ID: "C08", Level: "exploration", Engine: "drv", QuickRuns: 1200, ThoroughS: 480, Components: stdComponents,
		Assumptions: append([]string{"no fault or schedule dimension (faults during iteration are C17, concurrent iteration is C06)"}, assume...),
		Rule:        "one evaluation = one history; at sampled steps, for the working state (with uncommitted additions, updates, removals) and the newest retained versions, every (start,end) pair of the bound set (nil, empty, stored keys, neighbours, prefixes, extensions, below min, above max; exhaustive when <=24 bounds, else 200 seeded pairs) x both directions is iterated through the tree-walk iterator, the fast iterator, the unsaved-fast iterator and the callback forms and compared with R1's range, incl. Domain, termination, Error, every stop point; non-trivial = >=4 non-empty ranges compared",
		Gen:         func(seed uint64, run int, tier string) *drv.Plan { return genPlan("C08", seed, run, c08Bias(tier)) }, Exec: execC08})
	Register(&Check{ID: "C11", Level: "exploration", Engine: "drv", QuickRuns: 1600, ThoroughS: 480, Assumptions: assume, Components: stdComponents,
		Rule: "one evaluation = one history with ascending/descending/alternating/random insertion order and removals; after every step Height/Size of the working tree and of every retained version equal R2's and satisfy h <= 1.4405*log2(n+2); rank/select are checked as inverse against R1; at the end a cache-less fresh handle is opened and the number of s-space storage reads of every Get/GetWithIndex/Has/GetByIndex (<=2h+2) and GetProof (<=10h+10) is measured at the storage seam for every probe key and rank; non-trivial = >=3 shape audits on a tree with >=2 leaves",
		Gen: func(seed uint64, run int, tier string) *drv.Plan {
			p := genPlan("C11", seed, run, c11Bias(tier, sim.Sub(seed, "C11-order", run)))
			if run%200 == 42 {
				p.Mode = "tall"
				p.Steps = nil
			}
			return p
		}, Exec: execC11})
	Register(&Check{ID: "C12", Level: "exploration", Engine: "drv", QuickRuns: 3000, ThoroughS: 480, Assumptions: assume, Components: stdComponents,
		Rule: "one evaluation = one crash-free history with synchronous pruning; after every commit/prune/rollback/reopen/import the whole simulated disk is scanned and decoded with the independent codec: stored node identities (version, hash) must equal the union of R2's reachable sets of the retained versions (no missing, no extra, no duplicate node), child links must resolve to the right nodes, exactly one root marker per retained version and none for deleted ones, (v,0)/(v,1) never coexist, legacy spaces empty, fast index = latest pairs; non-trivial = >=2 audits after >=1 commit",
		Gen:  func(seed uint64, run int, tier string) *drv.Plan { return genPlan("C12", seed, run, c12Bias(tier)) }, Exec: execStore("C12", false)})
	Register(&Check{ID: "C14", Level: "exploration", Engine: "drv", QuickRuns: 2500, ThoroughS: 480, Assumptions: assume, Components: stdComponents,
		Rule: "one evaluation = one history with no-op commits, tiny trees, pruning, rollback, reopening at older versions and identical/different re-commits; after every structural step, live and again on a freshly opened handle, for every version number 0..latest+1: VersionExists, AvailableVersions, GetImmutable, LoadVersion (scratch handle), GetVersioned and GetLatestVersion are compared with R1's contiguous range; commit numbers and re-commit outcomes are checked in the step itself; non-trivial = >=2 version audits after >=1 commit",
		Gen:  func(seed uint64, run int, tier string) *drv.Plan { return genPlan("C14", seed, run, c14Bias(tier)) }, Exec: execC14})
}

// ----------------------------------------------------------------------- C04

func c04Bias(tier string) drv.Bias {
	b := drv.DefaultBias()
	b.NoEmptyValues = true
	b.Prune, b.Pin = 70, 30
	b.NoopVersion = 35
	b.Tiny, b.Small = 45, 40
	b.LVFO, b.DVF, b.Reopen, b.Load, b.Recommit = 10, 3, 10, 0, 0
	b.Flushes = []int{150, 180, 200, 260, 320, 400, 1000, 100000}
	b.InitVers = []int64{0, 0, 0, 6, 1 << 40}
	b.MaxVersions = 14
	if tier == "thorough" {
		b.MaxVersions = 30
	}
	return b
}

// relabel makes a violation found by a shared oracle the property's own.
func relabel(v *drv.Violation, prop, clause string) *drv.Violation {
	if v == nil {
		return nil
	}
	v.Oracle = prop + "." + clause + "/" + v.Oracle
	v.Prop = prop
	return v
}

func execC04(p *drv.Plan) *Out {
	st := &drv.ProofStats{}
	audits := 0
	auditLater := func(w *drv.World, id int, phase string) *drv.Violation {
		keys := w.ProbeKeys()
		if v := relabel(w.AuditVersions(phase, false), "C04", "availability"); v != nil {
			return v
		}
		for _, ver := range w.M.Versions() {
			if v := relabel(w.AuditVersion("C04", "C04.later-version-intact", ver, keys), "C04", phase); v != nil {
				return v
			}
		}
		if v := relabel(w.AuditHashes(), "C04", "later-version-intact"); v != nil {
			return v
		}
		// proofs for 3 present + 3 absent keys of every later version
		r := drv.SubRand(p, "c04", id, phase)
		for _, ver := range w.M.Versions() {
			m := w.M.Committed[ver]
			if m.Len() == 0 {
				continue
			}
			var sel [][]byte
			np, na := 0, 0
			for _, i := range permOf(r, len(keys)) {
				_, ok := m.Get(keys[i])
				if ok && np < 3 {
					sel = append(sel, keys[i])
					np++
				} else if !ok && na < 3 {
					sel = append(sel, keys[i])
					na++
				}
			}
			it, err := w.Tree.GetImmutable(ver)
			if err != nil {
				return &drv.Violation{Prop: "C04", Oracle: "C04.later-version-intact", Symptom: "version-unreadable", Class: phase, Detail: fmt.Sprintf("GetImmutable(%d): %v", ver, err), StepID: id}
			}
			if v := relabel(w.AuditProofs(phase, it, w.T.RootHash(ver), m, sel, nil, r, st), "C04", "later-version-proofs"); v != nil {
				return v
			}
		}
		audits++
		return nil
	}
	hooks := drv.Hooks{
		Prop: "C04",
		After: func(w *drv.World, s drv.Step) *drv.Violation {
			if s.Op != drv.OpPrune {
				return nil
			}
			if v := auditLater(w, s.ID, "after-prune"); v != nil {
				return v
			}
			if w.Clean() {
				r := drv.SubRand(p, "c04-restart", s.ID)
				if v := relabel(w.Restart(r.Chance(1, 2), r.Pick(0, 2, 1000)), "C04", "restart"); v != nil {
					return v
				}
				return auditLater(w, s.ID, "after-restart")
			}
			return nil
		},
	}
	r1 := drv.RunPlan(p, p.Config, hooks)
	out := stdOut(p, r1)
	out.Stats["prune_audits"] = audits
	out.Stats["proofs_verified"] = st.Positive
	out.NonTrivial = audits >= 1
	return out
}

func permOf(r *sim.Rand, n int) []int {
	p := make([]int, n)
	for i := range p {
		p[i] = i
	}
	for i := n - 1; i > 0; i-- {
		j := r.Intn(i + 1)
		p[i], p[j] = p[j], p[i]
	}
	return p
}

// ----------------------------------------------------------------------- C09

func c09Bias(tier string, r *sim.Rand) drv.Bias {
	b := drv.DefaultBias()
	b.LVFO, b.DVF, b.Discard = 40, 15, 30
	b.Pin = 12
	b.Prune, b.Reopen, b.Load, b.Recommit = 15, 15, 3, 10
	b.MaxVersions = 14
	b.InitVers = []int64{0, 0, 0, 4, 1 << 40}
	// a share of the runs uses trees large enough for a rollback to delete many
	// stored nodes (more than the 64-entry buffer of the MemDB iterator)
	b.Backends = []string{"simdb", "simdb", "simdb", "simdb", "memdb", "prefix-memdb", "leveldb"}
	if r.Chance(1, 5) {
		b.Tiny, b.Small, b.MediumMax = 0, 0, 60
		b.MaxOpsPerVersion = 30
	}
	if tier == "thorough" {
		b.MaxVersions = 25
	}
	return b
}

func execC09(p *drv.Plan) *Out {
	rolled := false
	audits := 0
	hooks := drv.Hooks{
		Prop: "C09",
		After: func(w *drv.World, s drv.Step) *drv.Violation {
			switch s.Op {
			case drv.OpLVFO, drv.OpDVF, drv.OpDiscard:
				rolled = true
			}
			if !rolled {
				return nil
			}
			audits++
			// from the rollback on, the tree must be indistinguishable from one
			// whose history simply ended there: R1/R2 are exactly that history
			if v := relabel(w.AuditAll("C09", "C09.reads"), "C09", "after-rollback"); v != nil {
				return v
			}
			if v := relabel(w.AuditHashes(), "C09", "after-rollback"); v != nil {
				return v
			}
			if !isStructural(s.Op) {
				return nil
			}
			if v := relabel(w.AuditVersions("after-rollback", false), "C09", "after-rollback"); v != nil {
				return v
			}
			if v := relabel(w.AuditStore("C09", false, w.Imported), "C09", "after-rollback"); v != nil {
				return v
			}
			if w.Fast && w.Sim != nil && s.Op != drv.OpDiscard {
				return relabel(w.AuditFastIndex("C09"), "C09", "after-rollback")
			}
			return nil
		},
	}
	r1 := drv.RunPlan(p, p.Config, hooks)
	// failures of the steps executed after a rollback are the property's own too
	if r1.Foreign != nil && rolled && r1.Vio == nil {
		r1.Vio = relabel(r1.Foreign, "C09", "after-rollback")
		r1.Foreign = nil
	}
	out := stdOut(p, r1)
	out.Stats["post_rollback_audits"] = audits
	out.NonTrivial = audits >= 2 && r1.W.P["rollback.to-older"] > 0
	return out
}

// ----------------------------------------------------------------------- C15

func c15Bias(tier string, r *sim.Rand) drv.Bias {
	b := drv.DefaultBias()
	b.SaveCS, b.ReplayCS = 20, 70
	b.Prune, b.Reopen = 12, 12
	b.LVFO, b.DVF, b.Load, b.Recommit = 0, 0, 0, 0
	b.NoopVersion = 20
	b.RemoveShare = 40
	b.Tiny, b.Small, b.MediumMax = 30, 45, 24
	b.MaxVersions = 10
	b.InitVers = []int64{0, 0, 0, 3}
	if r.Chance(1, 2) {
		// normal-form runs: hashes of the replay are compared too
		b.SortedWrites = true
		b.Discard = 0
		b.SetNil = 0
		b.Prune = 0 // the replay needs every version since the first
	} else if r.Chance(1, 2) {
		b.Prune = 0
	}
	if tier == "thorough" {
		b.MaxVersions = 20
		b.MediumMax = 48
	}
	return b
}

func execC15(p *drv.Plan) *Out {
	st := map[string]int{}
	hooks := drv.Hooks{
		Prop: "C15",
		After: func(w *drv.World, s drv.Step) *drv.Violation {
			if !isStructural(s.Op) && s.Op != drv.OpChangeSt {
				return nil
			}
			return w.AuditChangeSets(drv.SubRand(p, "c15", s.ID), st)
		},
	}
	r1 := drv.RunPlan(p, p.Config, hooks)
	out := stdOut(p, r1)
	for k, v := range st {
		out.Stats[k] = v
	}
	out.NonTrivial = st["nonempty_changesets"] >= 2
	return out
}

func init() {
	assume := []string{
		"reference models R1/R2/R3 under /verif/ref are the specification (written from docs and the property statements, not from iavl code)",
		"SimDB: batch writes are atomic and totally ordered; keys non-empty; InitialVersion 0 = not configured",
		"seeded sampling of histories and configurations: evidence within the stated bounds, not a proof",
	}
	Register(&Check{ID: "C04", Level: "exploration", Engine: "drv", QuickRuns: 3000, ThoroughS: 480, Components: stdComponents,
		Assumptions: append([]string{"pruning is synchronous here (the mode in which the statement promises an error); asynchronous pruning is exercised in C06", "an Exporter kept open as a pin runs as a free goroutine; only results, never storage-call counts, enter the event log of such runs", "empty values excluded where proofs are verified"}, assume...),
		Rule:        "one evaluation = one history biased to commits without writes, empty versions, single-leaf roots reused by later trees and rollbacks, with DeleteVersionsTo(n) for arbitrary n and flush thresholds that split one deletion over several physical batches, Exporters pinning versions; after every deletion request: rejected requests (latest, pinned) return an error and leave the disk byte-identical, requests below the first version are no-ops, and after a legal request every API agrees that versions <= n are gone and every later version has R1's contents, R2's hash and verifying ICS-23 proofs - immediately and again after a clean restart; non-trivial = >=1 full audit after a deletion request",
		Gen:         func(seed uint64, run int, tier string) *drv.Plan { return genPlan("C04", seed, run, c04Bias(tier)) }, Exec: execC04})
	Register(&Check{ID: "C09", Level: "exploration", Engine: "drv", QuickRuns: 800, ThoroughS: 480, Assumptions: assume, Components: stdComponents,
		Rule: "one evaluation = one history H1, a rollback (discard of uncommitted changes, LoadVersionForOverwriting(v), or DeleteVersionsFrom(v+1)+reopen+LoadVersion(v)) for any retained v incl. latest/first/after pruning/repeated, and an arbitrary continuation H2; from the first rollback on, after every step: every read of every retained version and of the working state, every hash, all version APIs, the raw-disk reachability audit and the raw fast index are compared with R1/R2, which by construction are the history that simply ended at v; a share of runs uses real MemDB/GoLevelDB and trees with >64 stored nodes in the deleted range; non-trivial = >=2 post-rollback audits incl. a rollback to an older version",
		Gen: func(seed uint64, run int, tier string) *drv.Plan {
			return genPlan("C09", seed, run, c09Bias(tier, sim.Sub(seed, "C09-shape", run)))
		}, Exec: execC09, RunTimeout: 120 * 1e9})
	Register(&Check{ID: "C15", Level: "exploration", Engine: "drv", QuickRuns: 3000, ThoroughS: 480, Components: stdComponents,
		Assumptions: append([]string{"no fault or schedule dimension: a pure function of the committed history; the simulator contributes histories x pruning x restarts x configurations", "the end bound of TraverseStateChanges is accepted both as inclusive and exclusive (documentation and implementation disagree)"}, assume...),
		Rule:        "one evaluation = one history with repeated writes/removals of a key inside a version, set-then-remove, remove-then-set, identical rewrites, no-op and empty versions, pruning; after every structural step TraverseStateChanges is called for boundary and seeded ranges and every reported version whose predecessor is retained is compared with R1's normal-form change set; SaveChangeSet commits versions (incl. rejected removals of missing keys); at the end all change sets are replayed into an empty tree and every version's contents (and, for runs generated in normal form, root hash) must be reproduced; non-trivial = >=2 non-empty change sets compared",
		Gen: func(seed uint64, run int, tier string) *drv.Plan {
			return genPlan("C15", seed, run, c15Bias(tier, sim.Sub(seed, "C15-shape", run)))
		}, Exec: execC15})
}
