// Package checks assembles one check per property from the driver engines and
// provides the coordinator / worker / replay / shrink plumbing shared by all.
package checks

import (
	"bufio"
	"crypto/sha256"
	"encoding/hex"
	"encoding/json"
	"fmt"
	"os"
	"os/exec"
	"path/filepath"
	"runtime"
	"sort"
	"strconv"
	"strings"
	"sync"
	"time"

	"verif/drv"
	"verif/sim"
)

// Out is what executing one plan produced.
type Out struct {
	Violations []*drv.Violation `json:"violations,omitempty"`
	Foreign    *drv.Violation   `json:"foreign,omitempty"` // failure owned by another property; run stopped there
	Tainted    bool             `json:"tainted,omitempty"` // goroutines of the code under test are still alive: the process must not execute another run
	Evals      int              `json:"evals"`             // evaluations inside the run (cuts, fault positions, ...) >= 1
	NonTrivial bool             `json:"nontrivial"`
	Probes     map[string]int   `json:"probes,omitempty"`
	Faults     map[string]int   `json:"faults,omitempty"` // faults that actually fired, by kind
	Stats      map[string]int   `json:"stats,omitempty"`
	States     []string         `json:"states,omitempty"` // digests of distinct states/interleavings reached
	SimMs      int64            `json:"sim_ms,omitempty"`
	Sample     interface{}      `json:"sample,omitempty"`
	Trace      string           `json:"trace,omitempty"`    // event-log digest (determinism self-test)
	Schedule   []int            `json:"schedule,omitempty"` // recorded scheduling choices of a concurrent run
}

// Check describes one property's check.
type Check struct {
	ID          string
	Level       string // exploration | fault_enumeration
	Engine      string
	Rule        string
	Assumptions []string
	Components  map[string]string
	// Gen builds the plan of run i.
	Gen func(seed uint64, run int, tier string) *drv.Plan
	// Exec executes a plan.
	Exec func(p *drv.Plan) *Out
	// QuickRuns is the run count of the quick tier; ThoroughS the default
	// wall-clock budget of the thorough tier in seconds.
	QuickRuns int
	ThoroughS int
	// Race requests the race-detector build of the worker binary.
	Race bool
	// StepTimeout is the per-run watchdog.
	RunTimeout time.Duration
	// Workers caps the worker count (0 = all cores).
	Workers int
	// Shrink can be set to customise minimisation; nil = generic ddmin over steps.
	Shrink func(c *Check, p *drv.Plan, v *drv.Violation) *drv.Plan
}

// statesMeasure says what "states_distinct" counts for a check.
func statesMeasure(c *Check) string {
	switch {
	case c.ID == "C06":
		return "distinct adjacency pairs 'task:yield point>next task' of the schedules executed (which task was preempted where, in favour of whom)"
	case c.ID == "C18":
		return "concurrent mode only: distinct adjacency pairs 'task:yield point>next task' of the schedules executed"
	case c.Engine == "drv":
		return "distinct digests of (durable contents of the simulated disk, first/latest/loaded version of the model, fast-index and cache setting of the open handle) after every structural step (commit, deletion, rollback, reopen, load, import, discard); at most 64 per run; C05 mode async adds the adjacency pairs of its schedules"
	}
	return "not measured for this engine (real SQLite files): see probes and stats"
}

var registry = map[string]*Check{}

// Register adds a check.
func Register(c *Check) {
	if c.RunTimeout == 0 {
		c.RunTimeout = 60 * time.Second
	}
	if sim.RaceBuild && !c.Race {
		// a check whose time limits were sized for the plain build, run under
		// the race detector (C10 thorough): the detector costs up to 10x
		c.RunTimeout *= 8
	}
	registry[c.ID] = c
}

// Get returns a registered check.
func Get(id string) *Check { return registry[id] }

// IDs lists registered checks.
func IDs() []string {
	var ids []string
	for id := range registry {
		ids = append(ids, id)
	}
	sort.Strings(ids)
	return ids
}

// BaseSeed reads VERIF_SEED.
func BaseSeed() uint64 {
	if s := os.Getenv("VERIF_SEED"); s != "" {
		if v, err := strconv.ParseUint(s, 10, 64); err == nil {
			return v
		}
		if v, err := strconv.ParseInt(s, 10, 64); err == nil {
			return uint64(v)
		}
	}
	return 20260923
}

// PlanDigest is a digest of a plan's content (not its run number).
func PlanDigest(p *drv.Plan) string {
	q := *p
	q.Run = 0
	q.Seed = 0
	q.Expect = nil
	b, _ := json.Marshal(&q)
	h := sha256.Sum256(b)
	return hex.EncodeToString(h[:8])
}

// SafeExec executes a plan, converting a panic of the harness or of iavl that
// escaped the per-step guards into a violation.
func SafeExec(c *Check, p *drv.Plan) (out *Out) {
	defer func() {
		if r := recover(); r != nil {
			buf := make([]byte, 1<<16)
			n := runtime.Stack(buf, false)
			out = &Out{Evals: 1, Violations: []*drv.Violation{{
				Prop: c.ID, Oracle: c.ID + ".harness", Symptom: "panic", Class: "escaped",
				Detail: fmt.Sprintf("panic: %v\n%s", r, buf[:n]),
			}}}
		}
	}()
	return c.Exec(p)
}

// ------------------------------------------------------------------ worker

type workerMsg struct {
	Run    int       `json:"run"`
	Start  bool      `json:"start,omitempty"`
	Digest string    `json:"digest,omitempty"`
	Out    *Out      `json:"out,omitempty"`
	Plan   *drv.Plan `json:"plan,omitempty"` // present when the run has violations
	Hang   bool      `json:"hang,omitempty"`
	Done   bool      `json:"done,omitempty"`
	Mode   string    `json:"mode,omitempty"` // sub-mode of the plan (evidence: one sample per mode)
	// Retire: the run left goroutines of the code under test behind (a hang
	// inside the simulation); its result has been sent, the worker ends and
	// the coordinator starts a fresh one at the next run.
	Retire bool `json:"retire,omitempty"`
}

// Worker runs the runs start, start+stride, ... (count of them, or until the
// deadline when count < 0) and streams results as JSON lines on stdout.
func Worker(c *Check, seed uint64, tier string, start, stride, count int, deadline time.Time) {
	w := bufio.NewWriter(os.Stdout)
	enc := json.NewEncoder(w)
	var mu sync.Mutex
	send := func(m workerMsg) {
		mu.Lock()
		defer mu.Unlock()
		_ = enc.Encode(m)
		_ = w.Flush()
	}
	for i, n := start, 0; count < 0 || n < count; i, n = i+stride, n+1 {
		if count < 0 && time.Now().After(deadline) {
			break
		}
		p := c.Gen(seed, i, tier)
		p.Property = c.ID
		p.Seed = seed
		p.Run = i
		send(workerMsg{Run: i, Start: true})
		done := make(chan *Out, 1)
		go func() { done <- SafeExec(c, p) }()
		select {
		case out := <-done:
			m := workerMsg{Run: i, Out: out, Digest: PlanDigest(p), Mode: p.Mode}
			if len(out.Violations) > 0 || out.Foreign != nil {
				if out.Schedule != nil && !p.UseSchedule {
					// make the schedule explicit so that it can be replayed and minimised
					p.Schedule, p.UseSchedule = out.Schedule, true
				}
				m.Plan = p
			}
			send(m)
			if out.Tainted {
				send(workerMsg{Run: i, Retire: true})
				os.Exit(0)
			}
		case <-time.After(c.RunTimeout):
			send(workerMsg{Run: i, Hang: true, Plan: p})
			os.Exit(3)
		}
	}
	send(workerMsg{Done: true})
}

// ------------------------------------------------------------- coordinator

// Finding is one line of KNOWN_FINDINGS.txt.
type Finding struct {
	Kind string // finding | fixed
	Prop string
	Sig  string
	Text string
}

// LoadFindings parses KNOWN_FINDINGS.txt.
func LoadFindings(path string) []Finding {
	b, err := os.ReadFile(path)
	if err != nil {
		return nil
	}
	var out []Finding
	for _, line := range strings.Split(string(b), "\n") {
		line = strings.TrimSpace(line)
		if line == "" || strings.HasPrefix(line, "#") {
			continue
		}
		var f Finding
		switch {
		case strings.HasPrefix(line, "finding:"):
			f.Kind = "finding"
			rest := strings.TrimSpace(strings.TrimPrefix(line, "finding:"))
			parts := strings.SplitN(rest, "::", 2)
			if len(parts) == 2 {
				f.Text = strings.TrimSpace(parts[1])
			}
			for _, tok := range strings.Fields(parts[0]) {
				if strings.HasPrefix(tok, "property=") {
					f.Prop = strings.TrimPrefix(tok, "property=")
				}
				if strings.HasPrefix(tok, "sig=") {
					f.Sig = strings.TrimPrefix(tok, "sig=")
				}
			}
		case strings.HasPrefix(line, "fixed:"):
			f.Kind = "fixed"
			f.Text = strings.TrimSpace(strings.TrimPrefix(line, "fixed:"))
		default:
			continue
		}
		out = append(out, f)
	}
	return out
}

// MatchSig matches a signature against a pattern whose fields may be "*".
func MatchSig(pattern, sig string) bool {
	pp := strings.Split(pattern, "|")
	ss := strings.Split(sig, "|")
	if len(pp) != len(ss) {
		return false
	}
	for i := range pp {
		if pp[i] == "*" {
			continue
		}
		if strings.HasSuffix(pp[i], "*") {
			if !strings.HasPrefix(ss[i], strings.TrimSuffix(pp[i], "*")) {
				return false
			}
			continue
		}
		if pp[i] != ss[i] {
			return false
		}
	}
	return true
}

type vioRec struct {
	v     *drv.Violation
	plan  *drv.Plan
	count int
}

// Evidence is the evidence file layout.
type Evidence struct {
	PropertyID  string                 `json:"property_id"`
	Tier        string                 `json:"tier"`
	Seed        int64                  `json:"seed"`
	Level       string                 `json:"level"`
	Coverage    map[string]interface{} `json:"coverage"`
	Assumptions []string               `json:"assumptions"`
	WallS       float64                `json:"wall_s"`
	Violations  int                    `json:"violations"`
}

// Root is the /verif directory.
func Root() string {
	if r := os.Getenv("VERIF_ROOT"); r != "" {
		return r
	}
	exe, err := os.Executable()
	if err == nil {
		d := filepath.Dir(filepath.Dir(exe))
		if _, err := os.Stat(filepath.Join(d, "MANIFEST.json")); err == nil {
			return d
		}
	}
	return "/verif"
}

// EvidenceDir / ReplayDir: where the coordinator writes. Sensitivity runs
// against seeded changes redirect both (VERIF_EVIDENCE_DIR, VERIF_REPLAY_DIR)
// so that the committed evidence only ever comes from runs against /repo itself.
func EvidenceDir() string {
	if d := os.Getenv("VERIF_EVIDENCE_DIR"); d != "" {
		return d
	}
	return filepath.Join(Root(), "evidence")
}

func ReplayDir() string {
	if d := os.Getenv("VERIF_REPLAY_DIR"); d != "" {
		return d
	}
	return filepath.Join(Root(), "replays")
}

// Coordinate runs a check: fans out workers, aggregates, minimises and
// reports. It returns the process exit code.
func Coordinate(c *Check, tier string, self string) int {
	t0 := time.Now()
	seed := BaseSeed()
	fmt.Printf("VERIF_SEED=%d property=%s tier=%s\n", seed, c.ID, tier)
	nw := runtime.NumCPU()
	if nw > 16 {
		nw = 16
	}
	if c.Workers > 0 && c.Workers < nw {
		nw = c.Workers
	}
	total := c.QuickRuns
	budget := 0
	if tier == "thorough" {
		budget = c.ThoroughS
		if s := os.Getenv("VERIF_BUDGET_S"); s != "" {
			if v, err := strconv.Atoi(s); err == nil {
				budget = v
			}
		}
		if budget <= 0 {
			budget = 300
		}
	}
	if s := os.Getenv("VERIF_RUNS"); s != "" {
		if v, err := strconv.Atoi(s); err == nil {
			total = v
		}
	}

	type agg struct {
		sync.Mutex
		evals, runs  int
		nontrivial   map[string]bool
		digests      map[string]bool
		probes       map[string]int
		faults       map[string]int
		stats        map[string]int
		states       map[string]bool
		simMs        int64
		samples      []interface{}
		sampleModes  map[string]bool
		foreign      map[string]int
		foreignN     int
		vios         map[string]*vioRec
		infra        []string
		crashedPlans []*drv.Plan
		crashSigs    map[string]int
		crashes      int
	}
	a := &agg{nontrivial: map[string]bool{}, digests: map[string]bool{}, probes: map[string]int{}, faults: map[string]int{}, stats: map[string]int{}, states: map[string]bool{}, sampleModes: map[string]bool{}, foreign: map[string]int{}, vios: map[string]*vioRec{}}

	var wg sync.WaitGroup
	runWorker := func(widx int) {
		defer wg.Done()
		start := widx
		count := -1
		if budget == 0 {
			count = (total - widx + nw - 1) / nw
			if count <= 0 {
				return
			}
		}
		for attempt := 0; attempt < 50; attempt++ {
			args := []string{"worker", c.ID, tier, strconv.FormatUint(seed, 10), strconv.Itoa(start), strconv.Itoa(nw), strconv.Itoa(count)}
			if budget > 0 {
				left := time.Until(t0.Add(time.Duration(budget) * time.Second))
				if left <= 0 {
					return
				}
				args = append(args, strconv.Itoa(int(left.Seconds())))
			}
			cmd := exec.Command(self, args...)
			cmd.Env = append(os.Environ(), "GORACE=halt_on_error=1 exitcode=66")
			stdout, _ := cmd.StdoutPipe()
			var stderr strings.Builder
			cmd.Stderr = &stderr
			if err := cmd.Start(); err != nil {
				a.Lock()
				a.infra = append(a.infra, "cannot start worker: "+err.Error())
				a.Unlock()
				return
			}
			sc := bufio.NewScanner(stdout)
			sc.Buffer(make([]byte, 1<<20), 1<<28)
			inflight := -1
			finished := false
			retiredAt := -1
			doneRuns := 0
			var hangPlan *drv.Plan
			for sc.Scan() {
				var m workerMsg
				if err := json.Unmarshal(sc.Bytes(), &m); err != nil {
					continue
				}
				switch {
				case m.Done:
					finished = true
				case m.Start:
					inflight = m.Run
				case m.Retire:
					retiredAt = m.Run
				case m.Hang:
					hangPlan = m.Plan
				case m.Out != nil:
					inflight = -1
					doneRuns++
					a.Lock()
					a.runs++
					ev := m.Out.Evals
					if ev < 1 {
						ev = 1
					}
					a.evals += ev
					a.digests[m.Digest] = true
					if m.Out.NonTrivial {
						a.nontrivial[m.Digest] = true
					}
					for k, v := range m.Out.Probes {
						a.probes[k] += v
					}
					for k, v := range m.Out.Faults {
						a.faults[k] += v
					}
					for k, v := range m.Out.Stats {
						a.stats[k] += v
					}
					for _, s := range m.Out.States {
						a.states[s] = true
					}
					a.simMs += m.Out.SimMs
					// samples: the first three runs, plus the first run of every
					// further sub-mode (so that every mode a check has shows one case)
					if m.Out.Sample != nil && (len(a.samples) < 3 || (!a.sampleModes[m.Mode] && len(a.samples) < 10)) {
						smp := m.Out.Sample
						if m.Mode != "" {
							smp = map[string]interface{}{"mode": m.Mode, "case": m.Out.Sample}
						}
						a.samples = append(a.samples, smp)
						a.sampleModes[m.Mode] = true
					}
					if m.Out.Foreign != nil {
						a.foreignN++
						a.foreign[m.Out.Foreign.Prop+":"+m.Out.Foreign.Sig()]++
					}
					for _, v := range m.Out.Violations {
						rec := a.vios[v.Sig()]
						if rec == nil {
							rec = &vioRec{v: v, plan: m.Plan}
							a.vios[v.Sig()] = rec
						} else if m.Plan != nil && rec.plan != nil && len(m.Plan.Steps) < len(rec.plan.Steps) {
							rec.v, rec.plan = v, m.Plan
						}
						rec.count++
					}
					a.Unlock()
				}
			}
			err := cmd.Wait()
			if finished && err == nil {
				return
			}
			if retiredAt >= 0 && err == nil {
				// a fresh process continues after the run that left goroutines behind
				start = retiredAt + nw
				if count > 0 {
					count -= doneRuns
					if count <= 0 {
						return
					}
				}
				continue
			}
			// The worker died or hung in run `inflight`.
			var crashed *drv.Plan
			if hangPlan != nil {
				crashed = hangPlan
			} else if inflight >= 0 {
				crashed = c.Gen(seed, inflight, tier)
				crashed.Property, crashed.Seed, crashed.Run = c.ID, seed, inflight
			}
			a.Lock()
			if crashed != nil {
				se := tail(stderr.String(), 6000)
				crashed.Extra = setExtraString(crashed.Extra, "crash_stderr", se)
				kind := "exit"
				if hangPlan != nil {
					kind = "hang"
				}
				crashed.Extra = setExtraString(crashed.Extra, "crash_kind", kind)
				// one plan per distinct crash signature is re-executed later; a storm
				// of dying workers (a change that breaks every run) ends the batch early
				csig := kind + ":" + crashViolation(c, crashKind(se), se).Sig()
				if a.crashSigs == nil {
					a.crashSigs = map[string]int{}
				}
				a.crashSigs[csig]++
				if a.crashSigs[csig] <= 2 {
					a.crashedPlans = append(a.crashedPlans, crashed)
				}
				a.crashes++
			} else {
				a.infra = append(a.infra, fmt.Sprintf("worker %d died outside a run: %v: %s", widx, err, tail(stderr.String(), 2000)))
			}
			a.Unlock()
			if inflight < 0 && hangPlan == nil {
				return
			}
			a.Lock()
			storm := a.crashes > 48
			a.Unlock()
			if storm {
				return
			}
			// continue after the crashed run
			runIdx := inflight
			if hangPlan != nil {
				runIdx = hangPlan.Run
			}
			start = runIdx + nw
			if count > 0 {
				count = count - doneRuns - 1
				if count <= 0 {
					return
				}
			}
		}
	}
	for i := 0; i < nw; i++ {
		wg.Add(1)
		go runWorker(i)
	}
	wg.Wait()

	findings := LoadFindings(filepath.Join(Root(), "KNOWN_FINDINGS.txt"))
	exit := 0
	known := map[string]int{}
	reported := 0

	// Crashed / hung runs: re-execute in a fresh process; reproducible => violation.
	for _, p := range a.crashedPlans {
		// a death whose own output already identifies a listed finding needs no
		// reproduction (some of them depend on the timing of real goroutines
		// inside third-party or v2 code and do not reproduce on demand)
		if se := extraString(p.Extra, "crash_stderr"); se != "" && extraString(p.Extra, "crash_kind") != "hang" {
			ov := crashViolation(c, crashKind(se), se)
			listed := ""
			for _, f := range findings {
				if f.Kind == "finding" && f.Prop == c.ID && MatchSig(f.Sig, ov.Sig()) {
					listed = f.Sig
					break
				}
			}
			if listed != "" {
				known[listed]++
				continue
			}
		}
		v := reproduceCrash(c, p, self)
		if v == nil {
			se := extraString(p.Extra, "crash_stderr")
			if extraString(p.Extra, "crash_kind") == "hang" {
				// the run exceeded the watchdog in the worker but completed normally
				// and without a violation when re-executed alone: an overloaded
				// machine, not a hang (a genuine hang is deterministic and reproduces)
				a.stats["slow_runs_reexecuted_ok"]++
				fmt.Printf("NOTE: run %d exceeded the watchdog under load; re-executed alone it completed without a violation\n", p.Run)
				continue
			}
			a.infra = append(a.infra, fmt.Sprintf("run %d crashed or hung (%s) but did not reproduce; its signature was %q; stderr tail: %s", p.Run, extraString(p.Extra, "crash_kind"), crashViolation(c, crashKind(se), se).Sig(), tail(se, 1200)))
			continue
		}
		rec := a.vios[v.Sig()]
		if rec == nil {
			a.vios[v.Sig()] = &vioRec{v: v, plan: p, count: 1}
		} else {
			rec.count++
		}
	}

	sigs := make([]string, 0, len(a.vios))
	for s := range a.vios {
		sigs = append(sigs, s)
	}
	sort.Strings(sigs)
	_ = os.MkdirAll(ReplayDir(), 0o755)
	for _, sig := range sigs {
		rec := a.vios[sig]
		if rec.v.Symptom == "race" && rec.v.Site == "" {
			// a race report without a frame of the code under test is a defect of the harness itself
			a.infra = append(a.infra, "race report outside the code under test: "+tail(rec.v.Detail, 1500))
			continue
		}
		matched := ""
		for _, f := range findings {
			if f.Kind == "finding" && f.Prop == c.ID && MatchSig(f.Sig, sig) {
				matched = f.Sig
				break
			}
		}
		if matched != "" {
			known[matched] += rec.count
			continue
		}
		// unlisted violation: minimise, write replay, confirm in a fresh process
		path, ok := minimiseAndWrite(c, rec.plan, rec.v, self)
		if !ok && rec.v.Symptom == "hang" {
			// exceeded the watchdog once but completes normally when replayed alone:
			// an overloaded machine, not a hang (a genuine hang is deterministic)
			a.stats["slow_runs_reexecuted_ok"]++
			fmt.Printf("NOTE: a run exceeded the watchdog under load; replayed alone it completed without a violation (%s)\n", path)
			continue
		}
		if !ok {
			a.infra = append(a.infra, fmt.Sprintf("violation %s did not reproduce on replay (plan kept at %s)", sig, path))
			continue
		}
		reported++
		fmt.Printf("VIOLATION property=%s replay=%s\n", c.ID, path)
		fmt.Printf("  signature: %s\n  detail: %s\n  seen in %d run(s)\n", sig, firstLine(rec.v.Detail), rec.count)
		exit = 1
	}
	for _, f := range findings {
		if f.Kind == "finding" && f.Prop == c.ID {
			n := known[f.Sig]
			fmt.Printf("KNOWN-FINDING: property=%s %s [sig=%s; met %d time(s) in this run]\n", c.ID, f.Text, f.Sig, n)
		}
	}

	wall := time.Since(t0).Seconds()
	cov := map[string]interface{}{
		"evaluations":         a.evals,
		"distinct_nontrivial": len(a.nontrivial),
		"rule":                c.Rule,
		"samples":             a.samples,
		"runs":                a.runs,
		"distinct_plans":      len(a.digests),
		"runs_per_hour":       int(float64(a.runs) / wall * 3600),
		"seeds":               map[string]interface{}{"base": seed, "runs": a.runs},
		"sim_time_ms":         a.simMs,
		"faults_fired":        a.faults,
		"probes":              a.probes,
		"stats":               a.stats,
		"states_distinct":     len(a.states),
		"states_measure":      statesMeasure(c),
		"stopped_on_foreign_failure": map[string]interface{}{
			"runs": a.foreignN, "by_signature": a.foreign,
		},
		"known_findings_seen": known,
		"components":          c.Components,
		"workers":             nw,
	}
	if len(a.samples) == 0 {
		cov["samples"] = []interface{}{"(no run completed)"}
	}
	ev := Evidence{PropertyID: c.ID, Tier: tier, Seed: int64(seed), Level: c.Level, Coverage: cov, Assumptions: c.Assumptions, WallS: wall, Violations: reported}
	_ = os.MkdirAll(EvidenceDir(), 0o755)
	b, _ := json.MarshalIndent(ev, "", " ")
	if err := os.WriteFile(filepath.Join(EvidenceDir(), c.ID+".json"), b, 0o644); err != nil {
		a.infra = append(a.infra, "cannot write evidence: "+err.Error())
	}
	zero := []string{}
	for k, v := range a.probes {
		if v == 0 {
			zero = append(zero, k)
		}
	}
	fmt.Printf("%s %s: runs=%d evaluations=%d distinct_nontrivial=%d violations=%d known=%d foreign-stops=%d wall=%.1fs\n", c.ID, tier, a.runs, a.evals, len(a.nontrivial), reported, len(known), a.foreignN, wall)
	if len(a.infra) > 0 {
		for _, s := range a.infra {
			fmt.Printf("INFRA: %s\n", s)
		}
		if exit == 0 {
			exit = 2
		}
	}
	if a.runs == 0 && exit == 0 {
		fmt.Println("INFRA: no run completed")
		exit = 2
	}
	return exit
}

func firstLine(s string) string {
	if i := strings.IndexByte(s, '\n'); i >= 0 {
		s = s[:i]
	}
	if len(s) > 400 {
		s = s[:400] + "..."
	}
	return s
}

func tail(s string, n int) string {
	if len(s) > n {
		return s[len(s)-n:]
	}
	return s
}

func setExtraString(e drv.Extra, k, v string) drv.Extra {
	if e == nil {
		e = drv.Extra{}
	}
	b, _ := json.Marshal(v)
	e[k] = b
	return e
}

func extraString(e drv.Extra, k string) string {
	if e == nil {
		return ""
	}
	var s string
	_ = json.Unmarshal(e[k], &s)
	return s
}
