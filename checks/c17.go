package checks

import (
	"errors"
	"fmt"
	"os"
	"sort"
	"strings"

	"github.com/cosmos/iavl"

	"verif/drv"
	"verif/ref"
	"verif/sim"
)

// C17: storage failures surface as errors. A run is a fault-free prefix
// history, then a list of probe operations; for every probe and every storage
// call the probe makes, one evaluation re-executes the probe on a fork of the
// disk with exactly that call failing.

func c17Bias(tier string) drv.Bias {
	b := drv.DefaultBias()
	b.Prune, b.LVFO, b.DVF, b.Reopen = 10, 3, 0, 10
	b.Load, b.Recommit, b.SetNil, b.Discard = 0, 0, 0, 0
	b.Tiny, b.Small, b.MediumMax = 15, 55, 20
	b.MaxVersions = 6
	b.BigValues = 20
	b.Flushes = []int{150, 220, 300, 400, 1000, 100000}
	b.InitVers = []int64{0}
	if tier == "thorough" {
		b.MaxVersions = 9
		b.MediumMax = 30
	}
	return b
}

// Probe op codes (Step.Op) of the C17 engine.
var c17ReadOps = []string{"p.get", "p.has", "p.getwithindex", "p.getbyindex", "p.getversioned", "p.immget", "p.iterate", "p.iterator", "p.immiterate", "p.proof", "p.membership", "p.nonmembership", "p.export", "p.changes", "p.load", "p.loadversion", "p.versionedproof"}
var c17WriteOps = []string{"p.set", "p.remove", "p.save", "p.prune", "p.lvfo", "p.dvf", "p.import"}

func genC17(seed uint64, run int, tier string) *drv.Plan {
	r := sim.Sub(seed, "C17", run)
	g := drv.NewGen(r, c17Bias(tier))
	p := &drv.Plan{Engine: "drv", Mode: "single"}
	p.Config = g.Config()
	p.Config.Cache = r.Pick(0, 0, 0, 2, 1000)
	steps := g.History()
	// the prefix must end clean: drop trailing uncommitted writes
	for len(steps) > 0 {
		op := steps[len(steps)-1].Op
		if op == drv.OpSet || op == drv.OpRemove || op == drv.OpSetNil {
			steps = steps[:len(steps)-1]
			continue
		}
		break
	}
	p.Steps = steps
	// probes
	pool := g.Pool()
	id := 100000
	n := 6
	if tier == "thorough" {
		n = 14
	}
	for i := 0; i < n; i++ {
		id++
		var op string
		if r.Chance(2, 3) {
			op = c17ReadOps[r.Intn(len(c17ReadOps))]
		} else {
			op = c17WriteOps[r.Intn(len(c17WriteOps))]
		}
		s := drv.Step{ID: id, Op: op, K: pool[r.Intn(len(pool))], V: []byte(fmt.Sprintf("p%d", id)), N: int64(r.Intn(8))}
		if r.Chance(1, 5) {
			s.K = append(append([]byte{}, s.K...), 0) // absent neighbour
		}
		s.Fast = bp(r.Chance(1, 2))
		p.Steps = append(p.Steps, s)
	}
	if r.Chance(1, 4) {
		p.Mode = "multi"
	}
	if run%350 == 77 {
		p.Mode = "big-import"
		p.Steps = nil
		return p
	}
	if run%8 == 5 {
		// a database written by the legacy library: the migration paths (legacy
		// root re-saved in the new layout, legacy versions rolled back or read)
		// under every single storage failure
		lp := genC16(seed, run, tier)
		p = &drv.Plan{Engine: "drv", Mode: "legacy", Config: lp.Config}
		p.Config.Cache = r.Pick(0, 0, 2, 1000)
		var pool [][]byte
		extra := r.Intn(3) // commits in the new layout on top of the legacy versions
		for _, s := range lp.Steps {
			if strings.HasPrefix(s.Op, "l.") {
				p.Steps = append(p.Steps, s)
				if len(s.K) > 0 {
					pool = append(pool, s.K)
				}
			}
		}
		id := 5000
		for i := 0; i < extra && len(pool) > 0; i++ {
			if r.Chance(2, 3) {
				id++
				p.Steps = append(p.Steps, drv.Step{ID: id, Op: drv.OpSet, K: pool[r.Intn(len(pool))], V: []byte(fmt.Sprintf("n%d", id))})
			}
			id++
			p.Steps = append(p.Steps, drv.Step{ID: id, Op: drv.OpSave})
		}
		if len(pool) == 0 {
			pool = [][]byte{[]byte("k")}
		}
		ops := []string{"p.saveempty", "p.saveempty", "p.save", "p.lvfo", "p.set", "p.remove", "p.loadversion", "p.load", "p.immget", "p.getversioned", "p.iterate", "p.export", "p.proof", "p.changes", "p.get", "p.has"}
		id = 100000
		n := 6
		if tier == "thorough" {
			n = 12
		}
		for i := 0; i < n; i++ {
			id++
			s := drv.Step{ID: id, Op: ops[r.Intn(len(ops))], K: pool[r.Intn(len(pool))], V: []byte(fmt.Sprintf("p%d", id)), N: int64(r.Intn(8))}
			s.Fast = bp(r.Chance(1, 2))
			p.Steps = append(p.Steps, s)
		}
		return p
	}
	if r.Chance(1, 5) {
		// random fault sequences over a whole history: 1-4 faults addressed as
		// (step, kind, per-mille position among that step's calls of the kind)
		p.Mode = "history"
		hb := c17Bias(tier)
		hb.Prune, hb.LVFO, hb.DVF, hb.Reopen = 15, 5, 4, 15
		g2 := drv.NewGen(sim.Sub(seed, "C17-hist", run), hb)
		p.Config = g2.Config()
		p.Steps = g2.History()
		nf := r.Range(1, 4)
		kinds := []string{sim.KGet, sim.KGet, sim.KHas, sim.KIter, sim.KRIter, sim.KNext, sim.KBSet, sim.KBDel, sim.KBWrite, sim.KBWrite, sim.KBSize}
		for i := 0; i < nf && len(p.Steps) > 0; i++ {
			st := p.Steps[r.Intn(len(p.Steps))]
			p.IOFaults = append(p.IOFaults, sim.Fault{Step: st.ID, Kind: kinds[r.Intn(len(kinds))], N: r.Intn(1000)})
		}
	}
	return p
}

func bp(b bool) *bool { return &b }

type probeResult struct {
	res   string // canonical rendering of the answer
	err   error
	wrote bool   // the API call is a write operation
	disk  uint64 // digest of the durable contents after the fault-free execution (dry run only)
}

func fmtp(ps []ref.Pair) string {
	var sb strings.Builder
	for _, p := range ps {
		fmt.Fprintf(&sb, "%x=%x;", p.K, p.V)
	}
	return sb.String()
}

// runProbe executes one probe on a world whose handle is open. ver picks a
// retained version from the probe's N.
func runProbe(w *drv.World, s drv.Step) (pr probeResult) {
	t := w.Tree
	vers := w.M.Versions()
	var ver int64
	if len(vers) > 0 {
		ver = vers[int(s.N)%len(vers)]
	}
	switch s.Op {
	case "p.get":
		v, err := t.Get(s.K)
		return probeResult{res: fmt.Sprintf("%x/%v", v, v == nil), err: err}
	case "p.has":
		v, err := t.Has(s.K)
		return probeResult{res: fmt.Sprint(v), err: err}
	case "p.getwithindex":
		i, v, err := t.GetWithIndex(s.K)
		return probeResult{res: fmt.Sprintf("%d/%x/%v", i, v, v == nil), err: err}
	case "p.getbyindex":
		k, v, err := t.GetByIndex(s.N)
		return probeResult{res: fmt.Sprintf("%x/%x", k, v), err: err}
	case "p.getversioned":
		v, err := t.GetVersioned(s.K, ver)
		return probeResult{res: fmt.Sprintf("%x/%v", v, v == nil), err: err}
	case "p.immget":
		it, err := t.GetImmutable(ver)
		if err != nil {
			return probeResult{err: err}
		}
		v, err := it.Get(s.K)
		return probeResult{res: fmt.Sprintf("%x/%v", v, v == nil), err: err}
	case "p.iterate":
		var ps []ref.Pair
		stopped, err := t.Iterate(func(k, v []byte) bool {
			ps = append(ps, ref.Pair{K: append([]byte{}, k...), V: append([]byte{}, v...)})
			return false
		})
		return probeResult{res: fmt.Sprintf("%v/%s", stopped, fmtp(ps)), err: err}
	case "p.immiterate":
		it, err := t.GetImmutable(ver)
		if err != nil {
			return probeResult{err: err}
		}
		var ps []ref.Pair
		stopped, err := it.Iterate(func(k, v []byte) bool {
			ps = append(ps, ref.Pair{K: append([]byte{}, k...), V: append([]byte{}, v...)})
			return false
		})
		return probeResult{res: fmt.Sprintf("%v/%s", stopped, fmtp(ps)), err: err}
	case "p.iterator":
		var start, end []byte
		if s.N%3 == 1 {
			start = s.K
		} else if s.N%3 == 2 {
			end = s.K
		}
		itr, err := t.Iterator(start, end, s.N%2 == 0)
		if err != nil {
			return probeResult{err: err}
		}
		var ps []ref.Pair
		for ; itr.Valid(); itr.Next() {
			ps = append(ps, ref.Pair{K: append([]byte{}, itr.Key()...), V: append([]byte{}, itr.Value()...)})
		}
		err = itr.Error()
		if cerr := itr.Close(); err == nil {
			err = cerr
		}
		return probeResult{res: fmtp(ps), err: err}
	case "p.proof", "p.membership", "p.nonmembership", "p.versionedproof":
		if t.Size() == 0 {
			return probeResult{res: "empty"}
		}
		var err error
		var kind string
		switch s.Op {
		case "p.proof":
			p, e := t.GetProof(s.K)
			err = e
			if p != nil {
				kind = fmt.Sprintf("%v/%v/%s", p.GetExist() != nil, p.GetNonexist() != nil, p.String())
			}
		case "p.membership":
			p, e := t.GetMembershipProof(s.K)
			err = e
			if p != nil && e == nil {
				kind = p.String()
			}
		case "p.nonmembership":
			p, e := t.GetNonMembershipProof(s.K)
			err = e
			if p != nil && e == nil {
				kind = p.String()
			}
		case "p.versionedproof":
			p, e := t.GetVersionedProof(s.K, ver)
			err = e
			if p != nil && e == nil {
				kind = p.String()
			}
		}
		return probeResult{res: kind, err: err}
	case "p.export":
		it, err := t.GetImmutable(ver)
		if err != nil {
			return probeResult{err: err}
		}
		exp, err := it.Export()
		if err != nil {
			return probeResult{err: err}
		}
		defer exp.Close()
		var sb strings.Builder
		for {
			n, err := exp.Next()
			if errors.Is(err, iavl.ErrorExportDone) {
				break
			}
			if err != nil {
				return probeResult{res: sb.String(), err: err}
			}
			fmt.Fprintf(&sb, "%x/%x/%d/%d;", n.Key, n.Value, n.Version, n.Height)
		}
		return probeResult{res: sb.String()}
	case "p.changes":
		var sb strings.Builder
		err := t.TraverseStateChanges(0, 1<<62, func(v int64, cs *iavl.ChangeSet) error {
			fmt.Fprintf(&sb, "v%d:", v)
			for _, p := range cs.Pairs {
				fmt.Fprintf(&sb, "%v/%x/%x;", p.Delete, p.Key, p.Value)
			}
			return nil
		})
		return probeResult{res: sb.String(), err: err}
	case "p.load", "p.loadversion":
		h := w.NewHandle(s.Fast != nil && *s.Fast, w.Cache)
		defer h.Close()
		target := int64(0)
		if s.Op == "p.loadversion" {
			target = ver
		}
		lv, err := h.LoadVersion(target)
		if err != nil {
			return probeResult{err: err}
		}
		var ps []ref.Pair
		_, err = h.Iterate(func(k, v []byte) bool {
			ps = append(ps, ref.Pair{K: append([]byte{}, k...), V: append([]byte{}, v...)})
			return false
		})
		// what the freshly loaded handle believes afterwards is part of the
		// answer: a failure absorbed during the load must not surface later as
		// missing versions or absent keys
		// (AvailableVersions and VersionExists have no error result: the calls
		// they make themselves are not failed, what they answer after the
		// failures absorbed so far is judged)
		var sb strings.Builder
		var avail []int
		w.Sim.Quiet(func() { avail = h.AvailableVersions() })
		fmt.Fprintf(&sb, "%d/%x/%s/avail=%v", lv, h.Hash(), fmtp(ps), avail)
		for _, v := range vers {
			val, gerr := h.GetVersioned(s.K, v)
			if gerr != nil {
				return probeResult{err: gerr} // this part of the composite read reported the failure
			}
			var exists bool
			w.Sim.Quiet(func() { exists = h.VersionExists(v) })
			fmt.Fprintf(&sb, "/v%d:%v:%x", v, exists, val)
		}
		return probeResult{res: sb.String(), err: err}
	case "p.set":
		u, err := t.Set(s.K, s.V)
		return probeResult{res: fmt.Sprint(u), err: err, wrote: true}
	case "p.remove":
		v, ok, err := t.Remove(s.K)
		return probeResult{res: fmt.Sprintf("%x/%v", v, ok), err: err, wrote: true}
	case "p.saveempty":
		// a commit without any change (reference root)
		h, v, err := t.SaveVersion()
		return probeResult{res: fmt.Sprintf("%x/%d", h, v), err: err, wrote: true}
	case "p.save":
		// pending writes first (fault-free callers arm the faults only for the commit)
		h, v, err := t.SaveVersion()
		return probeResult{res: fmt.Sprintf("%x/%d", h, v), err: err, wrote: true}
	case "p.prune":
		if len(vers) < 2 {
			return probeResult{res: "skip"}
		}
		to := vers[int(s.N)%(len(vers)-1)]
		err := t.DeleteVersionsTo(to)
		return probeResult{res: fmt.Sprintf("to%d", to), err: err, wrote: true}
	case "p.lvfo":
		if len(vers) == 0 {
			return probeResult{res: "skip"}
		}
		err := t.LoadVersionForOverwriting(ver)
		return probeResult{res: fmt.Sprintf("to%d", ver), err: err, wrote: true}
	case "p.dvf":
		// DeleteVersionsFrom, the rollback without the reload
		if len(vers) == 0 {
			return probeResult{res: "skip"}
		}
		err := t.DeleteVersionsFrom(ver + 1)
		return probeResult{res: fmt.Sprintf("to%d", ver), err: err, wrote: true}
	}
	return probeResult{res: "unknown"}
}

type c17pos struct {
	kind string
	n    int
}

// execC17History runs a whole history under a random fault sequence: a step
// during which a fault fired may fail; the handle is then discarded, the store
// reopened fault-free and it must show the state before or after the step,
// from which the history continues.
func execC17History(p *drv.Plan) *Out {
	w := drv.NewWorld(p.Config)
	out := &Out{Evals: 1, Probes: map[string]int{"mode.history": 1}, Stats: map[string]int{}, Faults: map[string]int{}}
	out.Sample = map[string]interface{}{"plan": p.Compact(), "faults": p.IOFaults}
	if err := w.Open(); err != nil || w.Sim == nil {
		return out
	}
	defer func() { w.Cleanup() }()
	var tr drv.Tracer
	byStep := map[int][]sim.Fault{}
	for _, f := range p.IOFaults {
		byStep[f.Step] = append(byStep[f.Step], f)
	}
	mk := func(s drv.Step, oracle, symptom, site, detail string) *drv.Violation {
		return &drv.Violation{Prop: "C17", Oracle: oracle, Symptom: symptom, Class: "history/" + s.Op, Site: site, StepID: s.ID, Detail: fmt.Sprintf("history under faults, step %s: %s", s.String(), detail)}
	}
	for _, s := range p.Steps {
		fs := byStep[s.ID]
		if len(fs) == 0 {
			if v := w.Apply(s); v != nil {
				if v.Prop != "C17" {
					out.Foreign = v
				} else {
					out.Violations = append(out.Violations, v)
				}
				break
			}
			tr.Add(s.ID, "plain")
			continue
		}
		// fault-free execution of the step on a fork: call counts and the state after
		wf := drv.NewWorld(p.Config)
		wf.UseSim(w.Sim.Fork())
		wf.Fast, wf.Cache = w.Fast, w.Cache
		wf.M, wf.T = w.M.Clone(), w.T.Clone()
		for k := range w.Universe {
			wf.Universe[k] = true
		}
		if err := wf.Open(); err != nil {
			break
		}
		// replay the uncommitted writes of the main handle on the fork
		// (a fork starts from the durable state only)
		dirty := !w.Clean()
		if dirty {
			wf.Cleanup()
			// keep it simple: faults are only injected at steps that start clean
			if v := w.Apply(s); v != nil {
				out.Foreign = v
				break
			}
			continue
		}
		wf.Sim.BeginStep(s.ID)
		vf := wf.Apply(s)
		counts := wf.Sim.Counts()
		postM, postT := wf.M.Clone(), wf.T.Clone()
		wf.Cleanup()
		if vf != nil {
			out.Foreign = vf
			break
		}
		var armed []sim.Fault
		for _, f := range fs {
			if c := counts[f.Kind]; c > 0 {
				armed = append(armed, sim.Fault{Step: s.ID, Kind: f.Kind, N: 1 + f.N*c/1000})
			}
		}
		preM, preT := committedOnly(w.M, w.T)
		w.Sim.ClearFired()
		w.Sim.Arm(armed)
		logBefore := w.Sim.LogLen()
		v := w.Apply(s)
		fired := w.Sim.Fired()
		w.Sim.Disarm()
		out.Evals++
		for _, f := range fired {
			out.Faults[f.Fault.Kind]++
		}
		tr.Add(s.ID, len(armed), len(fired), v != nil)
		if len(fired) == 0 {
			if v != nil {
				out.Foreign = v
				break
			}
			continue
		}
		site := fired[0].Site
		wrote := false
		for _, f := range fired {
			if !sim.ReadKinds[f.Fault.Kind] {
				wrote = true
			}
		}
		if v == nil {
			// the step succeeded although a storage call failed: fine for reads that
			// fell back correctly (the step oracle compared the result with the
			// model), never for a failed write
			if wrote && (s.Op == drv.OpSave || s.Op == drv.OpPrune || s.Op == drv.OpLVFO) {
				out.Violations = append(out.Violations, mk(s, "C17.write-not-successful", "success-after-failed-write", site, "reported success although a storage write failed"))
				break
			}
			continue
		}
		if v.Symptom == "panic" {
			v.Prop, v.Oracle, v.Site = "C17", "C17.no-panic", site
			v.Class = "history/" + s.Op
			out.Violations = append(out.Violations, v)
			break
		}
		if v.Symptom != "error-on-legal-request" && v.Symptom != "load-fails" {
			// a wrong result presented as success
			out.Violations = append(out.Violations, mk(s, "C17.read-error-or-same", "wrong-answer", site, v.Error()))
			break
		}
		// the operation reported the failure: discard the handle, reopen, old or new
		flushState := "no-flush"
		for _, rec := range w.Sim.Log(logBefore, w.Sim.LogLen()) {
			if len(rec.Ops) > 0 {
				flushState = "partial-flush"
			}
		}
		disk := w.Sim
		w.Cleanup()
		w2 := drv.NewWorld(p.Config)
		w2.UseSim(disk)
		w2.Fast, w2.Cache = w.Fast, w.Cache
		for k := range w.Universe {
			w2.Universe[k] = true
		}
		w2.M, w2.T = preM.Clone(), preT.Clone()
		if err := w2.Open(); err != nil {
			lv := mk(s, "C17.reopen-old-or-new", "load-fails", site, fmt.Sprintf("reopening after the failed step: %v", err))
			lv.Class = s.Op + "/" + flushState + "/" + fired[0].Fault.Kind
			out.Violations = append(out.Violations, lv)
			w = w2
			break
		}
		vOld := w2.Guard("C17", "C17.reopen-old-or-new", s.Op, func() *drv.Violation { return auditCrashState(w2) })
		if vOld != nil {
			nM, nT := committedOnly(postM, postT)
			w2.M, w2.T = nM, nT
			if vNew := w2.Guard("C17", "C17.reopen-old-or-new", s.Op, func() *drv.Violation { return auditCrashState(w2) }); vNew != nil {
				cls := s.Op
				if s.Op == drv.OpPrune {
					cls = "prune"
				}
				vv := mk(s, "C17.reopen-old-or-new", "bad-state-after-reopen", site, fmt.Sprintf("neither the state before (%s) nor after (%s)", firstLine(vOld.Detail), firstLine(vNew.Detail)))
				if what, mid := intermediateState(w2, "C17", "C17.reopen-old-or-new", s.Op, s.Op, preM, preT, nM, nT); mid {
					vv = mk(s, "C17.reopen-old-or-new", "intermediate-version", site, "the failed operation left part of its work behind: "+what+"; every remaining version is intact, but it is neither the state before nor the state after")
				}
				vv.Class = cls + "/" + flushState + "/" + fired[0].Fault.Kind
				out.Violations = append(out.Violations, vv)
				w = w2
				break
			}
		}
		w = w2
	}
	out.Stats["fault_positions"] = out.Evals
	out.NonTrivial = len(out.Faults) > 0
	out.Trace = fmt.Sprintf("%016x", tr.Sum())
	return out
}

// execC17BigImport imports a tree of ~21 000 nodes, so that the importer
// flushes batches asynchronously, with each of its batch writes (and a few of
// its batch.Set calls) failing in turn.
func execC17BigImport(p *drv.Plan) *Out {
	out := &Out{Evals: 1, Probes: map[string]int{"mode.big-import": 1}, Stats: map[string]int{}, Faults: map[string]int{}}
	out.Sample = "big-import under faults: 10500 keys in two versions, export of version 2, import with every batch write failing in turn"
	cfg := p.Config
	cfg.InitVer, cfg.InitMode = 0, ""
	src := drv.NewWorld(cfg)
	if err := src.Open(); err != nil {
		return out
	}
	for i := 0; i < 10500; i++ {
		k := []byte(fmt.Sprintf("big%05d", (i*7919)%10500))
		v := []byte(fmt.Sprintf("b%d", i))
		src.Tree.Set(k, v)
		src.M.Set(k, v)
		src.T.Set(k, v)
		if i == 5000 {
			src.Tree.SaveVersion()
			src.M.Commit()
			src.T.Commit()
		}
		if i%500 == 0 {
			src.Universe[string(k)] = true
		}
	}
	src.Tree.SaveVersion()
	src.M.Commit()
	src.T.Commit()
	base := src.Sim.Fork()
	w := drv.NewWorld(cfg)
	w.M, w.T = src.M, src.T
	for k := range src.Universe {
		w.Universe[k] = true
	}
	src.Cleanup()
	fast := p.Config.Fast
	step := drv.Step{ID: 424242, Op: "p.import", N: 1, Fast: &fast}
	var tr drv.Tracer
	// only the batch writes and a sample of the batch sets are enumerated
	// (an import of this size makes ~21 000 batch.Set calls)
	explicit := map[string]bool{}
	for n := 1; n <= 8; n++ {
		explicit[fmt.Sprintf("%d/%s/%d", step.ID, sim.KBWrite, n)] = true
	}
	for _, n := range []int{1, 9999, 10000, 10001, 20000, 20999} {
		explicit[fmt.Sprintf("%d/%s/%d", step.ID, sim.KBSet, n)] = true
	}
	vs, ev := importUnderFaults(p, w, base, step, tr.Add, explicit, out)
	out.Violations = append(out.Violations, vs...)
	out.Evals = ev
	if ev < 1 {
		out.Evals = 1
	}
	out.Stats["fault_positions"] = ev
	out.NonTrivial = ev >= 2
	out.Trace = fmt.Sprintf("%016x", tr.Sum())
	return out
}

func execC17(p *drv.Plan) *Out {
	if p.Mode == "history" {
		return execC17History(p)
	}
	if p.Mode == "big-import" {
		return execC17BigImport(p)
	}
	// split the plan into prefix history and probes
	var prefix, probes []drv.Step
	for _, s := range p.Steps {
		if strings.HasPrefix(s.Op, "p.") {
			probes = append(probes, s)
		} else {
			prefix = append(prefix, s)
		}
	}
	var w *drv.World
	var out *Out
	if p.Mode == "legacy" {
		out = &Out{Evals: 1, Probes: map[string]int{"mode.legacy": 1}, Stats: map[string]int{}, Faults: map[string]int{}}
		out.Sample = p.Compact()
		lp := *p
		lp.Steps = prefix
		var rest []drv.Step
		w, rest, _, _, _ = legacyWorld(&lp, out)
		if w == nil {
			return out
		}
		if err := w.Open(); err != nil {
			return out // C16 judges whether a legacy database opens
		}
		for _, s := range rest {
			if v := w.Apply(s); v != nil {
				return out // fault-free trouble on legacy databases is C16's subject
			}
		}
		if !w.Clean() {
			return out
		}
	} else {
		w = drv.NewWorld(p.Config)
		r1 := drv.RunOn(w, prefix, drv.Hooks{Prop: "C17"})
		out = stdOut(p, r1)
		out.Faults = map[string]int{}
		if r1.Vio != nil || r1.Foreign != nil || w.Sim == nil || !w.Clean() {
			return out
		}
	}
	base := w.Sim.Fork()
	baseDigest := base.Digest()
	cfg := p.Config
	fast, cache := w.Fast, w.Cache
	var tr drv.Tracer
	evals := 0
	seen := map[string]bool{}
	type triple struct {
		Probe   string `json:"probe"`
		Fault   string `json:"fault"`
		Outcome string `json:"outcome"`
	}
	var triples []triple
	addVio := func(v *drv.Violation) {
		if !seen[v.Sig()] && len(out.Violations) < 10 {
			seen[v.Sig()] = true
			out.Violations = append(out.Violations, v)
		}
	}
	// a world on a fork of the base disk with an open, fault-free handle
	fork := func() *drv.World {
		w2 := drv.NewWorld(cfg)
		w2.UseSim(base.Fork())
		w2.Fast, w2.Cache = fast, cache
		w2.M, w2.T = w.M.Clone(), w.T.Clone()
		for k := range w.Universe {
			w2.Universe[k] = true
		}
		if err := w2.Open(); err != nil {
			panic("C17: fault-free open failed: " + err.Error())
		}
		return w2
	}
	// pending writes before a p.save probe, applied fault-free
	prepare := func(w2 *drv.World, s drv.Step) {
		if s.Op == "p.save" {
			_, _ = w2.Tree.Set(s.K, s.V)
			_, _ = w2.Tree.Set(append(append([]byte{}, s.K...), 1), s.V)
			w2.M.Set(s.K, s.V)
			w2.T.Set(s.K, s.V)
			k2 := append(append([]byte{}, s.K...), 1)
			w2.M.Set(k2, s.V)
			w2.T.Set(k2, s.V)
			w2.Universe[string(k2)] = true
			w2.Universe[string(s.K)] = true
		}
	}
	explicit := map[string]bool{}
	for _, f := range p.IOFaults {
		explicit[fmt.Sprintf("%d/%s/%d", f.Step, f.Kind, f.N)] = true
	}
	for _, s := range probes {
		if s.Op == "p.import" {
			vs, ev := importUnderFaults(p, w, base, s, tr.Add, explicit, out)
			evals += ev
			for _, v := range vs {
				addVio(v)
			}
			continue
		}
		// dry run: fault-free answer and the storage calls the probe makes
		w0 := fork()
		prepare(w0, s)
		w0.Sim.BeginStep(s.ID)
		r0 := runProbe(w0, s)
		counts := w0.Sim.Counts()
		r0.disk = w0.Sim.Digest()
		w0.Cleanup()
		if r0.res == "skip" || r0.res == "unknown" {
			continue
		}
		var positions []c17pos
		kinds := make([]string, 0, len(counts))
		for k := range counts {
			kinds = append(kinds, k)
		}
		sort.Strings(kinds)
		for _, k := range kinds {
			for n := 1; n <= counts[k]; n++ {
				positions = append(positions, c17pos{k, n})
			}
		}
		if p.Mode == "multi" && len(positions) >= 2 && len(explicit) == 0 {
			// random multi-fault sequences: pairs of positions
			r := drv.SubRand(p, "c17-multi", s.ID)
			for i := 0; i < 6; i++ {
				a, b := positions[r.Intn(len(positions))], positions[r.Intn(len(positions))]
				v := oneFault(p, w, base, baseDigest, fork, prepare, s, r0, []c17pos{a, b}, out)
				evals++
				tr.Add(s.ID, a.kind, a.n, b.kind, b.n, v == nil)
				if v != nil {
					addVio(v)
				}
			}
			continue
		}
		for _, pos := range positions {
			if len(explicit) > 0 && !explicit[fmt.Sprintf("%d/%s/%d", s.ID, pos.kind, pos.n)] {
				continue
			}
			v := oneFault(p, w, base, baseDigest, fork, prepare, s, r0, []c17pos{pos}, out)
			evals++
			oc := "ok"
			if v != nil {
				oc = v.Symptom
				addVio(v)
			}
			tr.Add(s.ID, pos.kind, pos.n, oc)
			if len(triples) < 8 {
				triples = append(triples, triple{s.String(), fmt.Sprintf("%s#%d", pos.kind, pos.n), oc})
			}
		}
	}
	out.Evals = evals
	if out.Evals < 1 {
		out.Evals = 1
	}
	out.Stats["fault_positions"] = evals
	out.NonTrivial = evals >= 1
	out.Trace = fmt.Sprintf("%s-%016x", out.Trace, tr.Sum())
	out.Sample = map[string]interface{}{"plan": p.Compact(), "faults": triples}
	return out
}

// oneFault executes probe s with the given storage calls failing.
func oneFault(p *drv.Plan, w *drv.World, base *sim.SimDB, baseDigest uint64, fork func() *drv.World, prepare func(*drv.World, drv.Step), s drv.Step, r0 probeResult, pos []c17pos, out *Out) (vio *drv.Violation) {
	w2 := fork()
	defer w2.Cleanup()
	prepare(w2, s)
	var faults []sim.Fault
	for _, q := range pos {
		faults = append(faults, sim.Fault{Step: s.ID, Kind: q.kind, N: q.n})
	}
	w2.Sim.BeginStep(s.ID)
	w2.Sim.ClearFired()
	w2.Sim.Arm(faults)
	logBefore := w2.Sim.LogLen()
	api := strings.TrimPrefix(s.Op, "p.")
	// the fault a violation is attributed to: the first one that actually fired
	// (with several armed faults the first armed one may never be reached)
	var fired []sim.Fired
	fKind := func() string {
		if len(fired) > 0 {
			return fired[0].Fault.Kind
		}
		return pos[0].kind
	}
	fDesc := func() string {
		if len(fired) == 0 {
			return fmt.Sprintf("%s #%d", pos[0].kind, pos[0].n)
		}
		var parts []string
		for _, f := range fired {
			parts = append(parts, fmt.Sprintf("%s #%d", f.Fault.Kind, f.Fault.N))
		}
		return strings.Join(parts, " and ")
	}
	mk := func(oracle, symptom, site, detail string) *drv.Violation {
		return &drv.Violation{Prop: "C17", Oracle: oracle, Symptom: symptom, Class: api + "/" + fKind(), Site: site, StepID: s.ID,
			Detail: fmt.Sprintf("%s with storage call %s failing: %s", s.String(), fDesc(), detail)}
	}
	var r1 probeResult
	pv := w2.Guard("C17", "C17.no-panic", api+"/"+pos[0].kind, func() *drv.Violation {
		r1 = runProbe(w2, s)
		return nil
	})
	fired = w2.Sim.Fired()
	w2.Sim.Disarm()
	if pv != nil {
		site := pv.Site
		if len(fired) > 0 {
			site = fired[0].Site
		}
		pv.Site = site
		pv.Detail = fmt.Sprintf("%s with storage call %s failing: %s", s.String(), fDesc(), pv.Detail)
		pv.Class = api + "/" + fKind()
		return pv
	}
	if len(fired) == 0 {
		return nil // the call sequence differed and the fault did not fire (counted as an evaluation without effect)
	}
	for _, f := range fired {
		out.Faults[f.Fault.Kind]++
	}
	site := fired[0].Site
	wroteFailed := false
	for _, f := range fired {
		if !sim.ReadKinds[f.Fault.Kind] {
			wroteFailed = true
		}
	}
	if !r1.wrote {
		// a read either reports the failure or returns exactly the fault-free answer
		if r1.err == nil && r1.res != r0.res {
			sym := "wrong-answer"
			switch {
			case len(r1.res) < len(r0.res) && strings.HasPrefix(r0.res, strings.TrimSuffix(r1.res, "/true")):
				sym = "truncated"
			case strings.HasSuffix(r1.res, "/true") && !strings.HasSuffix(r0.res, "/true"):
				sym = "spurious-absence"
			}
			return mk("C17.read-error-or-same", sym, site, fmt.Sprintf("returned %.120q without an error, the fault-free answer is %.120q", r1.res, r0.res))
		}
		if w2.Sim.Digest() != baseDigest && s.Op != "p.load" && s.Op != "p.loadversion" {
			return mk("C17.read-error-or-same", "store-changed", site, "a read changed the durable contents")
		}
		if r1.err == nil {
			// the read claimed success: the handle must still answer correctly
			// (a failure must not be absorbed into wrong cached state)
			if v := w2.Guard("C17", "C17.read-error-or-same", api, func() *drv.Violation { return w2.AuditVersions("after-faulted-read", false) }); v != nil {
				return mk("C17.read-error-or-same", "wrong-state-after-success", site, "the call succeeded, but afterwards the same handle answers wrongly without any further fault: "+firstLine(v.Detail))
			}
		}
		return nil
	}
	// write operations
	if wroteFailed && r1.err == nil {
		return mk("C17.write-not-successful", "success-after-failed-write", site, "the operation reported success although a storage write failed")
	}
	if r1.err == nil {
		// a failed read inside a write operation that still succeeded must have produced the fault-free result
		if r1.res != r0.res {
			return mk("C17.write-not-successful", "wrong-answer", site, fmt.Sprintf("succeeded with %.120q, fault-free %.120q", r1.res, r0.res))
		}
		// ... and the fault-free durable result: an operation that absorbed the
		// failed read and did part of its work, or other work, was not complete
		if w2.Sim.Digest() != r0.disk {
			return mk("C17.write-not-successful", "different-store-after-success", site, "the operation reported success although a storage read failed, and the durable contents differ from those of the fault-free execution: "+storeDiff(w0disk(fork, prepare, s), w2.Sim))
		}
		return nil
	}
	// the operation failed: discard the handle, reopen; old or new state
	if s.Op == "p.set" || s.Op == "p.remove" {
		return nil // nothing durable can have changed; the handle is discarded
	}
	// whether part of the operation had already reached the disk when it failed
	// is part of the signature: the listed findings are about partly flushed
	// deletions, a bad state without any flush would be something else
	flushState := "no-flush"
	for _, rec := range w2.Sim.Log(logBefore, w2.Sim.LogLen()) {
		if len(rec.Ops) > 0 {
			flushState = "partial-flush"
		}
		if os.Getenv("VERIF_DEBUG_INTERMEDIATE") != "" {
			fmt.Fprintf(os.Stderr, "pos=%v fired=%v err=%v\n", pos, fired, r1.err)
			for _, o := range rec.Ops {
				fmt.Fprintf(os.Stderr, "write: del=%v %x = %x\n", o.Del, o.K, o.V)
			}
			fmt.Fprintf(os.Stderr, "--\n")
		}
	}
	mkR := func(symptom, detail string) *drv.Violation {
		v := mk("C17.reopen-old-or-new", symptom, site, detail)
		v.Class = api + "/" + flushState + "/" + fKind()
		return v
	}
	disk := w2.Sim
	w2.Cleanup()
	w3 := drv.NewWorld(p.Config)
	w3.UseSim(disk)
	w3.Fast, w3.Cache = w2.Fast, w2.Cache
	oldM, oldT := committedOnly(w.M, w.T)
	w3.M, w3.T = oldM, oldT
	for k := range w2.Universe {
		w3.Universe[k] = true
	}
	defer w3.Cleanup()
	if v := w3.Guard("C17", "C17.reopen-old-or-new", api, func() *drv.Violation {
		if err := w3.Open(); err != nil {
			return mkR("load-fails", fmt.Sprintf("reopening after the failed operation: %v", err))
		}
		return nil
	}); v != nil {
		return v
	}
	// Whatever state the store reopened to, it has to BE that state for whatever
	// follows: in a third of the cases the application goes on with other
	// writes, commits, restarts with the opposite index setting, and every read
	// path must show exactly that (the same oracle as C05's mode nested, which
	// found the stale-label defect repaired by 2b203ed).
	goOn := func() *drv.Violation {
		var ns []int
		for _, q := range pos {
			ns = append(ns, q.n)
		}
		r := drv.SubRand(p, "c17-other", s.ID, fmt.Sprint(ns))
		if !w3.Clean() || !r.Chance(1, 3) || p.Mode == "legacy" {
			// (not on databases written by the legacy library: removals there
			// run into C16's listed finding - two legacy nodes of one creation
			// version re-saved under one key - which is not C17's subject)
			return nil
		}
		out.Probes["reopen.other-continuation"]++
		var us []string
		for k := range w3.Universe {
			us = append(us, k)
		}
		sort.Strings(us)
		var steps []drv.Step
		id := 1 << 21
		for i, n := 0, 1+r.Intn(3); i < n && len(us) > 0; i++ {
			k := []byte(us[r.Intn(len(us))])
			if r.Chance(1, 3) {
				steps = append(steps, drv.Step{ID: id, Op: drv.OpRemove, K: k})
			} else {
				steps = append(steps, drv.Step{ID: id, Op: drv.OpSet, K: k, V: []byte(fmt.Sprintf("o%d.%d", s.ID, i))})
			}
			id++
		}
		f, c := !w3.Fast, r.Pick(0, 2, 1000)
		steps = append(steps, drv.Step{ID: id, Op: drv.OpSave}, drv.Step{ID: id + 1, Op: drv.OpReopen, Fast: &f, Cache: &c})
		for _, st := range steps {
			if v := w3.Apply(st); v != nil {
				return mkR("continuation-diverges", fmt.Sprintf("the store reopened to a legal state, but going on with other writes (%s) failed: %s", st.String(), v.Error()))
			}
		}
		if v := w3.Guard("C17", "C17.reopen-old-or-new", api, func() *drv.Violation { return auditCrashState(w3) }); v != nil {
			return mkR("continuation-diverges", fmt.Sprintf("the store reopened to a legal state, but after other writes, a commit and a restart with the other index setting: %s", v.Error()))
		}
		return nil
	}
	vOld := w3.Guard("C17", "C17.reopen-old-or-new", api, func() *drv.Violation { return auditCrashState(w3) })
	if vOld == nil {
		return goOn()
	}
	// the state after: apply the operation to the model
	newM, newT := committedOnly(w2.M, w2.T)
	switch s.Op {
	case "p.save", "p.saveempty":
		newM, newT = w2.M.Clone(), w2.T.Clone()
		newM.Commit()
		newT.Commit()
	case "p.prune":
		vers := w.M.Versions()
		to := vers[int(s.N)%(len(vers)-1)]
		newM.PruneTo(to)
		newT.PruneTo(to)
	case "p.lvfo", "p.dvf":
		vers := w.M.Versions()
		newM.RollbackTo(vers[int(s.N)%len(vers)])
		newT.RollbackTo(vers[int(s.N)%len(vers)])
	}
	w3.M, w3.T = newM, newT
	vNew := w3.Guard("C17", "C17.reopen-old-or-new", api, func() *drv.Violation { return auditCrashState(w3) })
	if vNew == nil {
		return goOn()
	}
	if what, mid := intermediateState(w3, "C17", "C17.reopen-old-or-new", api, s.Op, oldM, oldT, newM, newT); mid {
		return mkR("intermediate-version", "the failed operation left part of its work behind: "+what+"; every remaining version is intact, but it is neither the state before nor the state after")
	}
	return mkR("bad-state-after-reopen", fmt.Sprintf("after the failed operation the store reopens to neither the state before (%s) nor after (%s)", firstLine(vOld.Detail), firstLine(vNew.Detail)))
}

// w0disk re-executes probe s fault-free and returns the resulting disk.
func w0disk(fork func() *drv.World, prepare func(*drv.World, drv.Step), s drv.Step) *sim.SimDB {
	w0 := fork()
	prepare(w0, s)
	w0.Sim.BeginStep(s.ID)
	runProbe(w0, s)
	d := w0.Sim
	w0.Cleanup()
	return d
}

// storeDiff describes the first few differences between two disks.
func storeDiff(want, got *sim.SimDB) string {
	a, b := want.Dump(), got.Dump()
	am := map[string]string{}
	for _, e := range a {
		am[string(e.K)] = string(e.V)
	}
	bm := map[string]string{}
	for _, e := range b {
		bm[string(e.K)] = string(e.V)
	}
	var out []string
	for _, e := range a {
		if v, ok := bm[string(e.K)]; !ok {
			out = append(out, fmt.Sprintf("missing %x", e.K))
		} else if v != string(e.V) {
			out = append(out, fmt.Sprintf("differs %x", e.K))
		}
	}
	for _, e := range b {
		if _, ok := am[string(e.K)]; !ok {
			out = append(out, fmt.Sprintf("extra %x", e.K))
		}
	}
	if len(out) > 6 {
		out = append(out[:6], fmt.Sprintf("... %d in all", len(out)))
	}
	return strings.Join(out, ", ")
}

// importUnderFaults exports a version from the base disk (fault-free) and
// imports it into an empty disk with every storage call of the import failing
// in turn.
func importUnderFaults(p *drv.Plan, w *drv.World, base *sim.SimDB, s drv.Step, trace func(...interface{}), explicit map[string]bool, out *Out) ([]*drv.Violation, int) {
	vers := w.M.Versions()
	if len(vers) == 0 {
		return nil, 0
	}
	ver := vers[int(s.N)%len(vers)]
	if ver > drv.MaxImportVersion {
		return nil, 0
	}
	src := drv.NewWorld(p.Config)
	src.UseSim(base.Fork())
	src.M, src.T = w.M.Clone(), w.T.Clone()
	if err := src.Open(); err != nil {
		return nil, 0
	}
	defer src.Cleanup()
	it, err := src.Tree.GetImmutable(ver)
	if err != nil {
		return nil, 0
	}
	exp, err := it.Export()
	if err != nil {
		return nil, 0
	}
	nodes, err := drv.ExportAll(exp.Next)
	exp.Close()
	if err != nil {
		return nil, 0
	}
	doImport := func(d *sim.SimDB, faults []sim.Fault) (err error, panicked *drv.Violation) {
		w2 := drv.NewWorld(p.Config)
		w2.UseSim(d)
		h := w2.NewHandle(s.Fast != nil && *s.Fast, 0)
		defer h.Close()
		if _, e := h.Load(); e != nil {
			return e, nil
		}
		d.BeginStep(s.ID)
		d.ClearFired()
		d.Arm(faults)
		defer d.Disarm()
		panicked = w2.Guard("C17", "C17.no-panic", "import", func() *drv.Violation {
			imp, e := h.Import(ver)
			if e != nil {
				err = e
				return nil
			}
			defer imp.Close()
			for _, n := range nodes {
				cp := *n
				if e := imp.Add(&cp); e != nil {
					err = e
					return nil
				}
			}
			err = imp.Commit()
			return nil
		})
		return err, panicked
	}
	d0 := sim.NewSimDB()
	if err, _ := doImport(d0, nil); err != nil {
		return nil, 0
	}
	counts := d0.Counts()
	kinds := make([]string, 0, len(counts))
	for k := range counts {
		kinds = append(kinds, k)
	}
	sort.Strings(kinds)
	var vios []*drv.Violation
	evals := 0
	for _, k := range kinds {
		for n := 1; n <= counts[k]; n++ {
			if len(explicit) > 0 && !explicit[fmt.Sprintf("%d/%s/%d", s.ID, k, n)] {
				continue
			}
			d := sim.NewSimDB()
			err, pv := doImport(d, []sim.Fault{{Step: s.ID, Kind: k, N: n}})
			fired := d.Fired()
			evals++
			trace(s.ID, k, n, err != nil, pv != nil)
			site := ""
			if len(fired) > 0 {
				site = fired[0].Site
				out.Faults[k]++
			}
			mk := func(oracle, symptom, detail string) *drv.Violation {
				return &drv.Violation{Prop: "C17", Oracle: oracle, Symptom: symptom, Class: "import/" + k, Site: site, StepID: s.ID,
					Detail: fmt.Sprintf("import of version %d with storage call %s #%d failing: %s", ver, k, n, detail)}
			}
			if pv != nil {
				pv.Site = site
				pv.Class = "import/" + k
				vios = append(vios, pv)
				continue
			}
			if len(fired) == 0 {
				continue
			}
			if err == nil && !sim.ReadKinds[k] {
				vios = append(vios, mk("C17.write-not-successful", "success-after-failed-write", "import reported success although a storage write failed"))
				continue
			}
			// reopen: empty (nothing visible) or the imported version
			w3 := drv.NewWorld(p.Config)
			w3.UseSim(d)
			w3.M, w3.T = ref.NewVMap(), ref.NewTree()
			for key := range w.Universe {
				w3.Universe[key] = true
			}
			if e := w3.Open(); e != nil {
				vios = append(vios, mk("C17.reopen-old-or-new", "load-fails", fmt.Sprintf("reopening the import target: %v", e)))
				continue
			}
			vOld := w3.Guard("C17", "C17.reopen-old-or-new", "import", func() *drv.Violation { return auditCrashState(w3) })
			if vOld != nil {
				w3.M.Committed[ver] = w.M.Committed[ver]
				w3.M.First, w3.M.Latest = ver, ver
				w3.M.Load(ver)
				w3.T.Roots[ver] = w.T.Roots[ver]
				w3.T.Latest = ver
				w3.T.Load(ver)
				if vNew := w3.Guard("C17", "C17.reopen-old-or-new", "import", func() *drv.Violation { return auditCrashState(w3) }); vNew != nil {
					vios = append(vios, mk("C17.reopen-old-or-new", "bad-state-after-reopen", fmt.Sprintf("the import target reopens to neither empty (%s) nor the imported version (%s)", firstLine(vOld.Detail), firstLine(vNew.Detail))))
				}
			}
			w3.Cleanup()
		}
	}
	return vios, evals
}

func init() {
	Register(&Check{ID: "C17", Level: "fault_enumeration", Engine: "drv", QuickRuns: 700, ThoroughS: 600, Components: stdComponents,
		Assumptions: []string{
			"a failed storage call returns an error and has no effect (a failed batch write is not applied); one fault per evaluation, plus seeded two-fault sequences in a quarter of the runs",
			"after an operation reported an error the handle is discarded (what an application that halts on error does); the in-memory state of that handle is not judged",
			"APIs without an error result (IterateRange, IterateRangeInclusive, Size, VersionExists, ...) are outside the statement",
			"single-fault positions are enumerated exhaustively per explored (history, probe); histories and probes are sampled",
		},
		Rule: "one run = one fault-free prefix history on the simulated disk, then a list of probe operations (17 kinds of reads incl. iteration, proofs, export, change sets, load; writes: Set, Remove, SaveVersion with pending writes, DeleteVersionsTo, LoadVersionForOverwriting, import); for every probe a dry run counts its storage calls by kind and records the fault-free answer, then one evaluation per (call kind, index): a fresh handle on a fork of the disk executes the probe with exactly that call failing; a read must return an error or exactly the fault-free answer and leave the disk unchanged; a write operation during which a storage write failed must not report success, and after any failed write operation a fresh tree on that disk must load to the state before or after with every retained version intact; panics are violations; evaluations = fault positions; non-trivial = plans with >=1 fault position",
		Gen:  genC17,
		Exec: execC17})
}
