package checks

import (
	"encoding/json"
	"fmt"
	"os"
	"os/exec"
	"path/filepath"
	"strconv"
	"strings"
	"sync"
)

// Selftest runs the harness self-tests:
//
//	selftest determinism [-n N] [prop ...]
//
// For every property and N run indices the plan is generated once and executed
// in three separate processes under GOMAXPROCS 1, 4 and 16; the complete
// outcome (violations, statistics, probes, fault counts, reached states and
// the event-log digest) must be identical.
func Selftest(args []string, self string) int {
	if len(args) == 0 || args[0] != "determinism" {
		fmt.Println("usage: selftest determinism [-n N] [prop ...]")
		return 2
	}
	args = args[1:]
	n := 40
	var props []string
	for i := 0; i < len(args); i++ {
		if args[i] == "-n" && i+1 < len(args) {
			n, _ = strconv.Atoi(args[i+1])
			i++
			continue
		}
		props = append(props, args[i])
	}
	if len(props) == 0 {
		props = IDs()
	}
	dir, err := os.MkdirTemp("", "verif-selftest-")
	if err != nil {
		fmt.Println(err)
		return 2
	}
	defer os.RemoveAll(dir)
	seed := BaseSeed()
	bad := 0
	total := 0
	var mu sync.Mutex
	for _, id := range props {
		c := Get(id)
		if c == nil {
			fmt.Printf("unknown property %s\n", id)
			return 2
		}
		sem := make(chan struct{}, 8)
		var wg sync.WaitGroup
		mism := 0
		for run := 0; run < n; run++ {
			run := run
			wg.Add(1)
			sem <- struct{}{}
			go func() {
				defer wg.Done()
				defer func() { <-sem }()
				p := c.Gen(seed, run, "quick")
				p.Property, p.Seed, p.Run = c.ID, seed, run
				f := filepath.Join(dir, fmt.Sprintf("%s-%d.json", id, run))
				b, _ := json.Marshal(p)
				_ = os.WriteFile(f, b, 0o644)
				var outs []string
				for _, procs := range []string{"1", "4", "16"} {
					cmd := exec.Command(self, "exec", f)
					cmd.Env = append(os.Environ(), "GOMAXPROCS="+procs, "GORACE=halt_on_error=1 exitcode=66")
					o, err := cmd.Output()
					s := string(o)
					if err != nil {
						s = "process died: " + err.Error()
					}
					outs = append(outs, s)
				}
				mu.Lock()
				total++
				if outs[0] != outs[1] || outs[1] != outs[2] {
					mism++
					if mism <= 3 {
						fmt.Printf("NONDETERMINISM property=%s run=%d\n  GOMAXPROCS=1 : %s\n  GOMAXPROCS=4 : %s\n  GOMAXPROCS=16: %s\n", id, run, clip(outs[0]), clip(outs[1]), clip(outs[2]))
					}
				}
				mu.Unlock()
				_ = os.Remove(f)
			}()
		}
		wg.Wait()
		fmt.Printf("determinism %s: %d plans x 3 processes, %d mismatches\n", id, n, mism)
		bad += mism
	}
	if bad > 0 {
		fmt.Printf("determinism self-test FAILED: %d of %d plans differ between executions\n", bad, total)
		return 1
	}
	fmt.Printf("determinism self-test passed: %d plans, each executed in 3 processes (GOMAXPROCS 1/4/16), identical outcomes\n", total)
	return 0
}

func clip(s string) string {
	s = strings.TrimSpace(s)
	if len(s) > 300 {
		return s[:300] + "..."
	}
	return s
}
