package checks

import "fmt"

// Selftest is filled in later (determinism self-test).
func Selftest(args []string, self string) int {
	fmt.Println("selftest: not implemented yet")
	return 2
}
