package checks

// C06, mode "commit-window": what the cooperative scheduler cannot reach.
//
// The scheduler preempts at hooks and storage calls only. A critical section
// of the commit protocol that is narrowed, moved or dropped (seed C06-4B:
// nodeDB.Commit writes the batch BEFORE it takes the nodeDB lock and updates
// the fast-node cache under it) opens a window in which there is neither; no
// schedule can place a reader there. Real lock semantics can: right after
// EVERY physical write of a SaveVersion became visible (post-write hook of the
// simulated disk; the writer is inside the library, holding whatever it holds)
// the harness starts a real reader goroutine that asks for the version being
// committed and reads it, and waits until that goroutine is blocked inside a
// lock acquisition (goroutine stack inspection) or has finished. Then the writer
// goes on; before it publishes the version (hook between Commit and
// publication) it waits for the readers. From the moment a reader is queued,
// the library's locks - not timing - decide what it sees: on the unchanged code
// it either is told the version does not exist yet (root entry not written) or
// gets in after the commit's critical section and reads exactly the version.

import (
	"bytes"
	"fmt"
	"runtime"
	"time"

	"github.com/cosmos/iavl"

	"verif/drv"
	"verif/ref"
	"verif/sim"
)

type windowResult struct {
	handedOut bool
	vio       *drv.Violation
}

// commitWindowReader reads version v the way a query handler would.
func commitWindowReader(tree *iavl.MutableTree, v int64, exp *c06Version, keys [][]byte, fastOn bool, res chan<- windowResult) {
	var out windowResult
	defer func() {
		if r := recover(); r != nil {
			out.vio = &drv.Violation{Prop: "C06", Oracle: "C06.no-panic", Symptom: "panic", Class: "commit-window", Detail: fmt.Sprintf("reader of version %d queued during its commit: panic: %v", v, r)}
		}
		res <- out
	}()
	ctx := "index-off"
	if fastOn {
		ctx = "index-on"
	}
	bad := func(sym, what, detail string) *drv.Violation {
		return &drv.Violation{Prop: "C06", Oracle: "C06.read", Symptom: sym, Class: what + "@ahead/" + ctx + "/commit-window", Detail: fmt.Sprintf("reader of version %d, queued on the library's locks right after a physical write of that version's commit: %s", v, detail)}
	}
	it, err := tree.GetImmutable(v)
	if err != nil {
		return // not handed out yet
	}
	out.handedOut = true
	for _, k := range keys {
		wv, present := exp.pairs.Get(k)
		got, err := it.Get(k)
		if err != nil {
			out.vio = bad("error-on-legal-request", "Get", err.Error())
			return
		}
		if (got != nil) != present || (present && !bytes.Equal(got, wv)) {
			sym := "wrong-value"
			if present && got == nil {
				sym = "spurious-absence"
			}
			out.vio = bad(sym, "Get", fmt.Sprintf("Get(%x)=%x want %x present=%v", k, got, wv, present))
			return
		}
		if has, err := it.Has(k); err != nil || has != present {
			out.vio = bad("wrong-value", "Has", fmt.Sprintf("Has(%x)=(%v,%v) want %v", k, has, err, present))
			return
		}
	}
	var got []ref.Pair
	itr, err := it.Iterator(nil, nil, true)
	if err != nil {
		out.vio = bad("error-on-legal-request", "Iterator", err.Error())
		return
	}
	for ; itr.Valid(); itr.Next() {
		got = append(got, ref.Pair{K: append([]byte{}, itr.Key()...), V: append([]byte{}, itr.Value()...)})
	}
	ierr := itr.Error()
	_ = itr.Close()
	if ierr != nil {
		out.vio = bad("error-on-legal-request", "Iterator", ierr.Error())
		return
	}
	if d := diffP(got, exp.pairs.Pairs()); d != "" {
		out.vio = bad("wrong-iteration", "Iterator", d)
		return
	}
	if h := it.Hash(); !bytes.Equal(h, exp.hash) {
		out.vio = bad("hash-mismatch", "Hash", fmt.Sprintf("Hash()=%x want %x", h, exp.hash))
	}
}

func execC06Window(p *drv.Plan) *Out {
	out := &Out{Evals: 1, Probes: map[string]int{"mode.commit-window": 1}, Stats: map[string]int{}, Faults: map[string]int{}}
	out.Sample = p.Compact()
	M, T := ref.NewVMap(), ref.NewTree()
	vers := map[int64]*c06Version{}
	universe := map[string]bool{}
	var wsteps []drv.Step
	for _, s := range p.Steps {
		switch s.Op {
		case drv.OpSet:
			M.Set(s.K, s.V)
			T.Set(s.K, s.V)
			universe[string(s.K)] = true
		case drv.OpRemove:
			M.Remove(s.K)
			T.Remove(s.K)
			universe[string(s.K)] = true
		case drv.OpSave:
			v := M.Commit()
			_, h := T.Commit()
			vers[v] = &c06Version{pairs: M.Committed[v], hash: h}
			_ = M.Committed[v].Keys()
		default:
			continue
		}
		wsteps = append(wsteps, s)
	}
	if len(vers) == 0 {
		return out
	}
	cfg := p.Config
	cfg.AsyncPrune = false
	w := drv.NewWorld(cfg)
	for k := range universe {
		w.Universe[k] = true
	}
	keys := w.ProbeKeys()
	if len(keys) > 12 {
		keys = keys[:12]
	}
	if err := w.Open(); err != nil {
		return out
	}
	defer w.Cleanup()
	tree := w.Tree
	var pending []chan windowResult
	var target int64
	var targetExp *c06Version
	inSave := false
	var vio *drv.Violation
	tainted := false
	collect := func() {
		for _, ch := range pending {
			select {
			case r := <-ch:
				if r.handedOut {
					out.Probes["window.reader.read-the-version"]++
				} else {
					out.Probes["window.reader.not-handed-out"]++
				}
				if r.vio != nil && vio == nil {
					vio = r.vio
				}
			case <-time.After(20 * time.Second):
				tainted = true
				if vio == nil {
					vio = &drv.Violation{Prop: "C06", Oracle: "C06.no-deadlock", Symptom: "hang", Class: "commit-window", Detail: fmt.Sprintf("a reader of version %d queued during its commit never returned", target)}
				}
			}
		}
		pending = nil
	}
	// only the writer's goroutine reaches the two points below; the readers' own
	// storage calls and yield points fall through on the comparison of the
	// (immutable) argument alone
	w.Sim.Hook = func(kind string) {
		if kind != "batch.Write.done" || !inSave {
			return
		}
		ch := make(chan windowResult, 1)
		pending = append(pending, ch)
		out.Stats["window_readers"]++
		go commitWindowReader(tree, target, targetExp, keys, cfg.Fast, ch)
		deadline := time.Now().Add(5 * time.Second)
		for time.Now().Before(deadline) {
			if len(ch) > 0 {
				out.Probes["window.reader.through-while-writer-waited"]++
				return
			}
			if sim.GoroutineBlockedInLock("checks.commitWindowReader") {
				out.Probes["window.reader.queued-on-a-lock"]++
				return
			}
			runtime.Gosched()
		}
		out.Probes["window.reader.neither-queued-nor-done"]++
	}
	iavl.VerifHooks.Yield = func(point string) {
		if point == "SaveVersion.betweenCommitAndPublish" {
			collect()
		}
	}
	defer func() {
		iavl.VerifHooks.Yield = nil
		w.Sim.Hook = nil
	}()
	var tr drv.Tracer
	for _, s := range wsteps {
		if vio != nil {
			break
		}
		switch s.Op {
		case drv.OpSet:
			if _, err := tree.Set(s.K, s.V); err != nil {
				vio = &drv.Violation{Prop: "C06", Oracle: "C06.writer", Symptom: "error-on-legal-request", Class: "set", Detail: err.Error()}
			}
		case drv.OpRemove:
			if _, _, err := tree.Remove(s.K); err != nil {
				vio = &drv.Violation{Prop: "C06", Oracle: "C06.writer", Symptom: "error-on-legal-request", Class: "remove", Detail: err.Error()}
			}
		case drv.OpSave:
			target = tree.WorkingVersion()
			targetExp = vers[target]
			if targetExp == nil {
				return out
			}
			inSave = true
			h, v, err := tree.SaveVersion()
			inSave = false
			collect()
			if err != nil {
				vio = &drv.Violation{Prop: "C06", Oracle: "C06.writer", Symptom: "error-on-legal-request", Class: "save", Detail: err.Error()}
			} else if !bytes.Equal(h, targetExp.hash) || v != target {
				vio = &drv.Violation{Prop: "C06", Oracle: "C06.writer", Symptom: "hash-mismatch", Class: "save", Detail: fmt.Sprintf("SaveVersion = (%x,%d), expected (%x,%d)", h, v, targetExp.hash, target)}
			}
			tr.Add(v, out.Stats["window_readers"])
		}
	}
	if vio != nil {
		vio.StepID = int(target)
		out.Violations = append(out.Violations, vio)
		tr.Add(vio.Sig())
	}
	out.Tainted = tainted
	out.NonTrivial = out.Stats["window_readers"] > 0
	out.Trace = fmt.Sprintf("win-%016x", tr.Sum())
	return out
}
