package checks

import (
	"verif/drv"
	"verif/drvdb"
	"verif/sim"
)

func init() {
	Register(&Check{
		ID:     "C18",
		Level:  "exploration",
		Engine: "drvdb",
		Rule: "one evaluation = one generated program (quick: 40-90 steps, thorough: 50-220) of Get/Has/Set/Delete, batch New/NewWithSize/Set/Delete/Write/WriteSync/Close/GetByteSize " +
			"(including calls on written or closed batches, the same key several times in one batch, reads while a batch is pending), forward and reverse iterators with nil / stored / in-between / outside / " +
			"start>=end / empty bounds consumed fully or partially, and LevelDB close+reopen, addressed to the root view or to one of 2-4 PrefixDB / nested PrefixDB views of the run " +
			"(prefix components from {ff, ffff, 70ff, 61, 00, 00ff, 6100, feff, 70, ff00, 61ffff, fe}; aliasing and nested namespaces on purpose); keys over an alphabet of 3-7 bytes that always holds 0x00 and 0xFF " +
			"plus prefix bytes and their successors, aimed at stored keys, their neighbours and the boundaries of nested namespaces. The program is executed on one MemDB and one GoLevelDB (scratch directory), each shared by " +
			"its root view and all its prefixed views, in lock-step with a plain sorted map of root-level keys; every result is compared with the model and after every step the complete contents of both " +
			"underlying stores are compared with the model (so a prefixed operation that touches a parent key outside its prefix shows). Op-kind weights are re-drawn per run (swarm). " +
			"Concurrent mode (run%5==2): one writer task writes 2-12 batches of 2-6 operations to a MemDB directly or through 1-2 PrefixDB layers while 1-3 reader tasks take snapshots (complete forward/reverse iterations) and point reads; the scheduler may preempt at operation boundaries and between two operations of memDBBatch.Write wherever nobody holds the MemDB lock; every snapshot must equal the contents after a whole number of batches between those complete at its start and those started at its end, every point read the value of one of those states; keys outside the prefix stay untouched. " +
			"Blocked-reader mode (run%10==4): the same batch programs, but at the first yield offer inside every batch write a REAL reader goroutine is started and the writer waits until that goroutine is blocked in sync.RWMutex.RLock (goroutine stack inspection) or has returned; then the lock, not timing, decides who runs: the reader's snapshot must be the contents before or after the batch (a lock released between two operations without any yield point in the gap admits the queued reader: torn batch). One run in six of both concurrent modes has a batch of 1 100-5 000 operations. " +
			"distinct = distinct plan digest; non-trivial = at least one iterator comparison on a view holding >= 2 keys and at least one successful write through a prefixed view",
		Assumptions: []string{
			"the specification is a plain sorted map of root-level keys; a view with prefix P shows the keys P+k (k non-empty) as k",
			"batch atomicity under concurrent readers is decided for MemDB and PrefixDB over MemDB (concurrent mode, a fifth of the runs: seeded schedules, yield point between the operations of a batch write, lock-probe rule); GoLevelDB's batch write is third-party code without a seam and is trusted; power loss is not simulated for the real backends (clean close/reopen only)",
			"no write is issued while an iterator is open (documented CONTRACT of the interface; MemDB would deadlock), and Key/Value/Next are never called on an invalid iterator",
			"Has(empty key) answering false without an error is accepted (the statement only says an empty key is never stored); error messages are not compared",
			"a stored empty value may read back as nil or empty; only presence (Has) is decided for it",
			"GetByteSize values are not compared across backends (the interface allows backend-specific metadata), only error vs no error",
			"an empty prefix (NewPrefixDB(db, nil)) is outside the quantifier (cpIncr documents len(prefix) > 0)",
			"GoLevelDB runs on real files in a scratch directory with the default options of NewGoLevelDB",
		},
		Components: map[string]string{"MemDB, GoLevelDB, PrefixDB (iterators, batches)": "real", "goleveldb library, file system": "real (scratch directory)", "oracle": "sorted-map model (drvdb/model.go)", "goroutine scheduling (concurrent mode)": "writer and readers are real goroutines whose order the seeded scheduler decides (sim/sched.go); MemDB's iterator feeder goroutine runs free inside one indivisible harness step"},
		QuickRuns:  c18QuickRuns,
		ThoroughS:  480,
		Gen: func(seed uint64, run int, tier string) *drv.Plan {
			if run%5 == 2 {
				return drvdb.GenConcurrent(sim.Sub(seed, "C18-concurrent", run), tier)
			}
			if run%10 == 4 {
				return drvdb.GenBlockedReader(sim.Sub(seed, "C18-blocked", run), tier)
			}
			return drvdb.Gen(sim.Sub(seed, "C18", run), tier)
		},
		Exec: func(p *drv.Plan) *Out {
			if p.Mode == drvdb.ModeConcurrent {
				r := drvdb.ExecConcurrent(p)
				return &Out{Violations: r.Violations, Evals: 1, NonTrivial: r.NonTrivial, Probes: r.Probes, Stats: r.Stats, Trace: r.Trace, Sample: r.Sample, Schedule: r.Schedule, Tainted: r.Tainted, States: r.States}
			}
			if p.Mode == drvdb.ModeBlockedReader {
				r := drvdb.ExecBlockedReader(p)
				return &Out{Violations: r.Violations, Evals: 1, NonTrivial: r.NonTrivial, Probes: r.Probes, Stats: r.Stats, Trace: r.Trace, Sample: r.Sample, Tainted: r.Tainted}
			}
			r := drvdb.Exec(p)
			return &Out{Violations: r.Violations, Evals: 1, NonTrivial: r.NonTrivial, Probes: r.Probes, Stats: r.Stats, Trace: r.Trace, Sample: r.Sample}
		},
	})
}

const c18QuickRuns = 7000
