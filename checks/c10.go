package checks

import (
	"bytes"
	"encoding/binary"
	"fmt"
	"time"

	"github.com/cosmos/iavl"

	"verif/drv"
	"verif/ref"
	"verif/sim"
)

func c10Bias(tier string) drv.Bias {
	b := drv.DefaultBias()
	b.NoEmptyValues = true
	b.ExpImp = 45
	b.Prune, b.LVFO, b.DVF, b.Reopen = 12, 4, 0, 8
	b.Load, b.Recommit, b.SetNil, b.Discard = 0, 0, 0, 3
	b.NoopVersion = 25
	b.Tiny, b.Small, b.MediumMax = 35, 40, 40
	b.InitVers = []int64{0, 0, 0, 9, 1000}
	if tier == "thorough" {
		b.MaxVersions = 20
		b.MediumMax = 64
	}
	return b
}

var chanMuts = []string{"drop", "dup", "swap", "trunc", "height+", "height-", "version0", "version-", "version>", "nilkey", "emptykey", "nilvalue", "emptyvalue", "valueoninner", "keychange", "heightbig", "move", "deltahuge", "deltabig", "deltanone"}

func genC10(seed uint64, run int, tier string) *drv.Plan {
	r := sim.Sub(seed, "C10", run)
	switch x := r.Intn(10); {
	case x < 6:
		b := c10Bias(tier)
		if run%8 == 5 {
			// the empty key is a legal key of the tree (index-less handles only)
			b.EmptyKey, b.FastNever = 100, true
		}
		p := genPlan("C10", seed, run, b)
		p.Mode = "fidelity"
		big := 400
		if tier == "thorough" {
			big = 60
		}
		if run%big == big-1 {
			// more than one import batch (10 000 nodes): ~5 200 leaves
			p.Mode = "fidelity-big"
		}
		return p
	default:
		// hostile stream: a small base tree whose export is mutated on the
		// exporter -> importer channel, or a fully generated node sequence
		b := c10Bias(tier)
		b.ExpImp, b.Prune, b.LVFO, b.Reopen, b.Discard = 0, 0, 0, 0, 0
		b.MaxVersions = 4
		g := drv.NewGen(r, b)
		p := &drv.Plan{Engine: "drv"}
		p.Config = g.Config()
		p.Config.InitVer, p.Config.InitMode = 0, ""
		p.Steps = g.History()
		p.Mode = "hostile-plain"
		if r.Chance(1, 2) {
			p.Mode = "hostile-compress"
		}
		if x < 9 {
			n := r.Range(1, 3)
			for i := 0; i < n; i++ {
				p.Chan = append(p.Chan, drv.ChanFault{Elem: r.Intn(40), Mut: chanMuts[r.Intn(len(chanMuts))], Arg: int64(r.Range(1, 5))})
			}
		} else {
			// fully generated sequence
			p.Mode += "-generated"
			n := r.Range(0, 12)
			id := 500000
			for i := 0; i < n; i++ {
				id++
				h := r.Pick(0, 0, 0, 1, 1, 2, 3, -1, 127)
				s := drv.Step{ID: id, Op: "x.node", N: int64(r.Pick(0, 1, 1, 1, 2, 3, -1, 7, 1000)), Cache: &h}
				if !r.Chance(1, 8) {
					s.K = g.Pool()[r.Intn(len(g.Pool()))]
				}
				if h == 0 && !r.Chance(1, 8) || r.Chance(1, 10) {
					s.V = []byte(fmt.Sprintf("g%d", id))
				}
				p.Steps = append(p.Steps, s)
			}
		}
		return p
	}
}

func execC10(p *drv.Plan) *Out {
	switch {
	case p.Mode == "fidelity" || p.Mode == "fidelity-big" || p.Mode == "":
		return execC10Fidelity(p)
	default:
		return execC10Hostile(p)
	}
}

func execC10Fidelity(p *drv.Plan) *Out {
	st := &drv.ProofStats{}
	imports := 0
	hooks := drv.Hooks{
		Prop: "C10",
		Prepare: func(w *drv.World) {
			if p.Mode != "fidelity-big" {
				return
			}
			// a tree with more nodes than one import batch, committed in two versions
			for i := 0; i < 5200; i++ {
				k := []byte(fmt.Sprintf("big%05d", (i*7919)%5200))
				v := []byte(fmt.Sprintf("b%d", i))
				w.Tree.Set(k, v)
				w.M.Set(k, v)
				w.T.Set(k, v)
				if i == 2600 {
					w.Tree.SaveVersion()
					w.M.Commit()
					w.T.Commit()
				}
			}
			w.Tree.SaveVersion()
			w.M.Commit()
			w.T.Commit()
			w.P.Inc("expimp.multi-batch")
		},
		After: func(w *drv.World, s drv.Step) *drv.Violation {
			if s.Op != drv.OpExpImp && !(w.Imported && isStructural(s.Op)) {
				return nil
			}
			if s.Op == drv.OpExpImp {
				imports++
			}
			// the imported tree: same hash, contents, proofs; then every later
			// commit hash is compared with R2 by the step oracle itself
			if v := relabel(w.AuditHashes(), "C10", "imported"); v != nil {
				return v
			}
			if p.Mode == "fidelity-big" {
				v := w.AuditVersion("C10", "C10.imported-contents", w.M.Latest, w.ProbeKeys())
				return v
			}
			if v := relabel(w.AuditAll("C10", "C10.imported-contents"), "C10", "imported"); v != nil {
				return v
			}
			if v := relabel(w.AuditVersions("imported", false), "C10", "imported"); v != nil {
				return v
			}
			if v := relabel(w.AuditStore("C10", false, true), "C10", "imported"); v != nil {
				return v
			}
			return relabel(w.AuditAllProofs(drv.SubRand(p, "c10", s.ID), st), "C10", "imported")
		},
	}
	steps := p.Steps
	if p.Mode == "fidelity-big" {
		// export/import the big tree right away, then continue with the generated history
		f := false
		c := 0
		steps = append([]drv.Step{{ID: 900001, Op: drv.OpExpImp, N: 2, Codec: []string{"plain", "compress"}[p.Run%2], Fast: &f, Cache: &c}}, steps...)
	}
	w := drv.NewWorld(p.Config)
	if p.Mode == "fidelity-big" {
		w.Cfg.InitVer, w.Cfg.InitMode = 0, ""
	}
	r1 := drv.RunOn(w, steps, hooks)
	// failures of steps after an import are the property's own ("behaves identically under further writes")
	if r1.Foreign != nil && r1.W.Imported && r1.Vio == nil {
		r1.Vio = relabel(r1.Foreign, "C10", "after-import")
		r1.Foreign = nil
	}
	out := stdOut(p, r1)
	out.Stats["imports"] = imports
	out.Stats["proofs_verified"] = st.Positive
	out.NonTrivial = imports >= 1
	return out
}

// ------------------------------------------------------------ hostile stream

func cloneNodes(ns []*iavl.ExportNode) []*iavl.ExportNode {
	out := make([]*iavl.ExportNode, len(ns))
	for i, n := range ns {
		c := *n
		out[i] = &c
	}
	return out
}

func applyChan(nodes []*iavl.ExportNode, faults []drv.ChanFault, importVersion int64) ([]*iavl.ExportNode, map[string]int) {
	fired := map[string]int{}
	for _, f := range faults {
		if len(nodes) == 0 {
			break
		}
		i := f.Elem % len(nodes)
		n := nodes[i]
		fired["chan."+f.Mut]++
		switch f.Mut {
		case "drop":
			nodes = append(nodes[:i:i], nodes[i+1:]...)
		case "dup":
			c := *n
			nodes = append(nodes[:i+1:i+1], append([]*iavl.ExportNode{&c}, nodes[i+1:]...)...)
		case "swap":
			if i+1 < len(nodes) {
				nodes[i], nodes[i+1] = nodes[i+1], nodes[i]
			}
		case "move":
			j := int(f.Arg*7) % len(nodes)
			x := nodes[i]
			nodes = append(nodes[:i:i], nodes[i+1:]...)
			if j > len(nodes) {
				j = len(nodes)
			}
			nodes = append(nodes[:j:j], append([]*iavl.ExportNode{x}, nodes[j:]...)...)
		case "trunc":
			nodes = nodes[:i]
		case "height+":
			n.Height += int8(f.Arg)
		case "height-":
			n.Height -= int8(f.Arg)
		case "heightbig":
			n.Height = 127
		case "version0":
			n.Version = 0
		case "version-":
			n.Version = -f.Arg
		case "version>":
			n.Version = importVersion + f.Arg
		case "nilkey":
			n.Key = nil
		case "emptykey":
			n.Key = []byte{}
		case "nilvalue":
			n.Value = nil
		case "emptyvalue":
			n.Value = []byte{}
		case "valueoninner":
			n.Value = []byte("x")
		case "keychange":
			n.Key = append(append([]byte{}, n.Key...), 'z')
		case "deltahuge":
			// a delta-encoded key whose shared-prefix length does not fit an int
			var hdr [binary.MaxVarintLen64]byte
			k := binary.PutUvarint(hdr[:], uint64(1)<<63|uint64(f.Arg))
			n.Key = append(append([]byte{}, hdr[:k]...), 'x')
		case "deltabig":
			var hdr [binary.MaxVarintLen64]byte
			k := binary.PutUvarint(hdr[:], uint64(1000*f.Arg))
			n.Key = append(append([]byte{}, hdr[:k]...), 'x')
		case "deltanone":
			n.Key = []byte{0x80} // truncated uvarint header
		}
	}
	return nodes, fired
}

func execC10Hostile(p *drv.Plan) *Out {
	var hist, gen []drv.Step
	for _, s := range p.Steps {
		if s.Op == "x.node" {
			gen = append(gen, s)
		} else {
			hist = append(hist, s)
		}
	}
	w := drv.NewWorld(p.Config)
	r1 := drv.RunOn(w, hist, drv.Hooks{Prop: "C10"})
	out := stdOut(p, r1)
	out.Faults = map[string]int{}
	if r1.Vio != nil || r1.Foreign != nil || w.Sim == nil {
		return out
	}
	compress := p.Mode == "hostile-compress" || p.Mode == "hostile-compress-generated"
	importVersion := w.M.Latest
	if importVersion == 0 {
		importVersion = 3
	}
	var nodes []*iavl.ExportNode
	if len(gen) > 0 || len(p.Mode) > len("hostile-compress") {
		for _, s := range gen {
			n := &iavl.ExportNode{Key: s.K, Value: s.V, Version: s.N}
			if s.Cache != nil {
				n.Height = int8(*s.Cache)
			}
			nodes = append(nodes, n)
		}
		out.Faults["chan.generated-stream"]++
	} else {
		// the export of the latest version through the (possibly compressing) exporter
		w2 := drv.NewWorld(p.Config)
		w2.UseSim(w.Sim.Fork())
		w2.M, w2.T = w.M.Clone(), w.T.Clone()
		if err := w2.Open(); err != nil || w.M.Latest == 0 {
			w2.Cleanup()
			return out
		}
		it, err := w2.Tree.GetImmutable(w.M.Latest)
		if err != nil {
			w2.Cleanup()
			return out
		}
		exp, err := it.Export()
		if err != nil {
			w2.Cleanup()
			return out
		}
		var next func() (*iavl.ExportNode, error) = exp.Next
		if compress {
			next = iavl.NewCompressExporter(exp).Next
		}
		ns, err := drv.ExportAll(next)
		exp.Close()
		w2.Cleanup()
		if err != nil {
			out.Violations = append(out.Violations, &drv.Violation{Prop: "C10", Oracle: "C10.export", Symptom: "error-on-legal-request", Class: p.Mode, Detail: err.Error()})
			return out
		}
		var fired map[string]int
		nodes, fired = applyChan(cloneNodes(ns), p.Chan, importVersion)
		for k, v := range fired {
			out.Faults[k] += v
		}
	}
	// feed the stream to an importer on an empty disk
	nd := sim.NewSimDB()
	w3 := drv.NewWorld(p.Config)
	w3.UseSim(nd)
	h := w3.NewHandle(p.Config.Fast, 0)
	if _, err := h.Load(); err != nil {
		return out
	}
	committed := false
	var addErr, commitErr error
	// Half of the callers give up at the first error; the others keep feeding
	// the rest of the stream and call Commit all the same ("all finite sequences
	// ... fed to Add/Commit"): a rejected Add must leave the importer as it was,
	// so that whatever is committed in the end holds every node that was accepted.
	persistent := drv.SubRand(p, "c10-persistent").Chance(1, 2)
	goOnAfterFailedCommit := persistent && drv.SubRand(p, "c10-after-failed-commit").Chance(1, 4)
	bigStream := func() []*iavl.ExportNode {
		out.Probes["hostile.big-stream-after-failed-commit"]++
		t := ref.NewTree()
		for i := 0; i < 5200; i++ {
			t.Set([]byte(fmt.Sprintf("zz-big-%05d", (i*7919)%5200)), []byte("b"))
		}
		v, _ := t.Commit()
		var ns []*iavl.ExportNode
		for _, e := range ref.Export(t.Roots[v]) {
			ns = append(ns, &iavl.ExportNode{Key: e.Key, Value: e.Value, Version: 1, Height: e.Height})
		}
		return ns
	}
	acceptedLeaves, addErrors := int64(0), 0
	done := make(chan *drv.Violation, 1)
	go func() {
		done <- w3.Guard("C10", "C10.importer-total", p.Mode, func() *drv.Violation {
			imp, err := h.Import(importVersion)
			if err != nil {
				addErr = err
				return nil
			}
			defer imp.Close()
			var add func(*iavl.ExportNode) error = imp.Add
			if compress {
				add = iavl.NewCompressImporter(imp).Add
			}
			for _, n := range nodes {
				if err := add(n); err != nil {
					addErr = err
					addErrors++
					if !persistent {
						return nil
					}
					continue
				}
				if n != nil && n.Height == 0 {
					acceptedLeaves++
				}
			}
			if commitErr = imp.Commit(); commitErr == nil {
				committed = true
			} else if goOnAfterFailedCommit {
				// "all finite sequences fed to Add/Commit": after a failed Commit
				// the caller feeds a well-formed stream large enough (>10 000
				// nodes) for the importer to flush a batch of its own, then
				// closes. Whatever the failed Commit left pending must not become
				// visible that way (seed C10-4A).
				for _, n := range bigStream() {
					_ = add(n)
				}
			}
			return nil
		})
	}()
	var pv *drv.Violation
	select {
	case pv = <-done:
	case <-time.After(20 * time.Second):
		out.Tainted = true // the importer goroutine is still busy: no further run in this process
		pv = &drv.Violation{Prop: "C10", Oracle: "C10.importer-total", Symptom: "hang", Class: p.Mode, Detail: "Add/Commit did not return within 20 s"}
	}
	out.Stats["hostile_streams"] = 1
	out.NonTrivial = len(nodes) > 0
	if pv != nil {
		pv.Class = p.Mode
		out.Violations = append(out.Violations, pv)
		return out
	}
	_ = h.Close()
	_ = addErr
	// what is visible afterwards
	w4 := drv.NewWorld(p.Config)
	w4.UseSim(nd)
	h2 := w4.NewHandle(false, 0)
	defer h2.Close()
	lv, err := h2.Load()
	if !committed {
		out.Probes["hostile.rejected"]++
		if err != nil || lv != 0 || len(h2.AvailableVersions()) != 0 || h2.VersionExists(importVersion) {
			out.Violations = append(out.Violations, &drv.Violation{Prop: "C10", Oracle: "C10.nothing-visible", Symptom: "visible-after-failed-import", Class: p.Mode,
				Detail: fmt.Sprintf("the import did not commit (add error %v, commit error %v) but the database loads as (%d, %v), available %v", addErr, commitErr, lv, err, h2.AvailableVersions())})
		}
		return out
	}
	out.Probes["hostile.committed"]++
	if err != nil || lv != importVersion {
		out.Violations = append(out.Violations, &drv.Violation{Prop: "C10", Oracle: "C10.committed-consistent", Symptom: "load-fails", Class: p.Mode,
			Detail: fmt.Sprintf("Commit succeeded but the database loads as (%d, %v), want version %d", lv, err, importVersion)})
		return out
	}
	// internally consistent: every stored node decodes, the root hash is
	// recomputable from the stored nodes, and iteration terminates
	if v := consistentImport(w4, h2, importVersion, p.Mode); v != nil {
		out.Violations = append(out.Violations, v)
		return out
	}
	// ... and complete: every accepted leaf is in the committed tree (the
	// importer is a stack machine: Commit needs exactly one node on the stack,
	// under which everything accepted hangs, unless a rejected Add lost nodes)
	if addErrors > 0 {
		out.Probes["hostile.committed-after-rejected-add"]++
	}
	if it, err := h2.GetImmutable(importVersion); err == nil && it.Size() != acceptedLeaves {
		out.Violations = append(out.Violations, &drv.Violation{Prop: "C10", Oracle: "C10.committed-complete", Symptom: "accepted-nodes-dropped", Class: p.Mode,
			Detail: fmt.Sprintf("Commit succeeded after %d rejected Add call(s): the committed tree has %d leaves, %d leaves had been accepted", addErrors, it.Size(), acceptedLeaves)})
	}
	return out
}

func consistentImport(w *drv.World, h *iavl.MutableTree, ver int64, cls string) *drv.Violation {
	bad := func(sym, d string) *drv.Violation {
		return &drv.Violation{Prop: "C10", Oracle: "C10.committed-consistent", Symptom: sym, Class: cls, Detail: d}
	}
	sc, v := w.ScanStore("C10")
	if v != nil {
		return v
	}
	it, err := h.GetImmutable(ver)
	if err != nil {
		return bad("version-unreadable", err.Error())
	}
	var rec func(ver int64, nonce uint32, depth int) ([]byte, int64, error)
	rec = func(ver int64, nonce uint32, depth int) ([]byte, int64, error) {
		if depth > 200 {
			return nil, 0, fmt.Errorf("cycle or depth > 200")
		}
		n := sc.Nodes[string(ref.SKey(ver, nonce))]
		if n == nil && nonce == 1 {
			n = sc.Nodes[string(ref.SKey(ver, 0))]
		}
		if n == nil {
			return nil, 0, fmt.Errorf("node (%d,%d) missing", ver, nonce)
		}
		if n.D.Height == 0 {
			return n.Hash, 1, nil
		}
		lh, ls, err := rec(n.D.LVer, n.D.LNonce, depth+1)
		if err != nil {
			return nil, 0, err
		}
		rh, rs, err := rec(n.D.RVer, n.D.RNonce, depth+1)
		if err != nil {
			return nil, 0, err
		}
		t := &ref.DNode{Height: n.D.Height, Size: n.D.Size, Version: n.Ver, LHash: lh, RHash: rh}
		hh := ref.LegacyHash(t)
		if !bytes.Equal(hh, n.D.Hash) {
			return nil, 0, fmt.Errorf("stored hash of (%d,%d) is not the hash of its fields and children", ver, nonce)
		}
		if ls+rs != n.D.Size {
			return nil, 0, fmt.Errorf("size of (%d,%d) is %d, children have %d", ver, nonce, n.D.Size, ls+rs)
		}
		return hh, ls + rs, nil
	}
	kind := sc.Roots[ver]
	switch {
	case kind == "empty":
		if it.Size() != 0 {
			return bad("inconsistent", "empty root marker but Size() != 0")
		}
	case kind == "node":
		hh, _, err := rec(ver, 1, 0)
		if err != nil {
			return bad("inconsistent", err.Error())
		}
		if !bytes.Equal(hh, it.Hash()) {
			return bad("inconsistent", "root hash is not recomputable from the stored nodes")
		}
	default:
		var rv int64
		var rn uint32
		if n, _ := fmt.Sscanf(kind, "ref:%d:%d", &rv, &rn); n != 2 {
			return bad("inconsistent", fmt.Sprintf("version %d has root entry %q", ver, kind))
		}
		hh, _, err := rec(rv, rn, 0)
		if err != nil {
			return bad("inconsistent", err.Error())
		}
		if !bytes.Equal(hh, it.Hash()) {
			return bad("inconsistent", "root hash is not recomputable from the stored nodes")
		}
	}
	n := 0
	_, err = it.Iterate(func(k, v []byte) bool { n++; return n > 1<<20 })
	if err != nil || n > 1<<20 {
		return bad("inconsistent", fmt.Sprintf("iteration of the committed import: n=%d err=%v", n, err))
	}
	return nil
}

func init() {
	Register(&Check{ID: "C10", Level: "exploration", Engine: "drv", QuickRuns: 2500, ThoroughS: 480, Components: stdComponents, RunTimeout: 90 * time.Second,
		Assumptions: []string{
			"import versions are capped at 10^6: newImporter allocates a slice of version+1 entries, so a 2^40 version would test the sandbox's memory, not the statement",
			"the exporter -> importer channel is the simulated unreliable link: drop, duplicate, swap, move, truncate, field corruption, fully generated sequences",
			"'nothing becomes visible' is judged through the public API of a fresh handle (Load, AvailableVersions, VersionExists); nodes already flushed by a failed import may remain on disk as invisible garbage, as the Importer documents",
			"reference models R1/R2/R3 under /verif/ref are the specification",
		},
		Rule: "fidelity runs (60%): generated histories with export->import steps (plain and compressed codec) of any retained version incl. empty trees, single leaves, roots inherited from earlier versions, and (1 run in 400) a tree of >10 000 nodes that crosses the importer's batch boundary; the export stream must equal R2's post-order stream, the imported tree must have R2's hash, R1's contents, verifying proofs, a conserving raw store, and every later commit on the imported tree must have R2's hash. hostile runs (40%): the export of a small tree is mutated on the simulated channel (1-3 faults) or a fully generated ExportNode sequence is fed to Add/Commit through the plain or the compressing importer: no panic, return within the watchdog, and if Commit did not succeed a fresh handle sees no version; if it succeeded the stored tree is decodable, hash-consistent and iterable. non-trivial = >=1 import (fidelity) or a non-empty stream (hostile)",
		Gen:  genC10,
		Exec: execC10})
}
