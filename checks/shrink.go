package checks

import (
	"context"
	"encoding/json"
	"fmt"
	"os"
	"os/exec"
	"path/filepath"
	"regexp"
	"strings"
	"time"

	"verif/drv"
)

// execResult is what `verif exec` prints.
type execResult struct {
	Out *Out `json:"out"`
}

// ExecInSubprocess executes a plan in a fresh process. died reports that the
// process did not finish normally (fatal error, os.Exit, race report, hang).
func ExecInSubprocess(c *Check, p *drv.Plan, self string) (out *Out, died bool, kind string, stderr string) {
	return execInSubprocessT(c, p, self, c.RunTimeout+15*time.Second)
}

func execInSubprocessT(c *Check, p *drv.Plan, self string, limit time.Duration) (out *Out, died bool, kind string, stderr string) {
	dir, err := os.MkdirTemp("", "verif-exec-")
	if err != nil {
		return nil, false, "", ""
	}
	defer os.RemoveAll(dir)
	f := filepath.Join(dir, "plan.json")
	b, _ := json.Marshal(p)
	_ = os.WriteFile(f, b, 0o644)
	ctx, cancel := context.WithTimeout(context.Background(), limit)
	defer cancel()
	cmd := exec.CommandContext(ctx, self, "exec", f)
	cmd.Env = append(os.Environ(), "GORACE=halt_on_error=1 exitcode=66")
	var so, se strings.Builder
	cmd.Stdout = &so
	cmd.Stderr = &se
	err = cmd.Run()
	stderr = se.String()
	if ctx.Err() != nil {
		return nil, true, "hang", stderr
	}
	if err != nil {
		return nil, true, crashKind(stderr), stderr
	}
	var r execResult
	if err := json.Unmarshal([]byte(so.String()), &r); err != nil || r.Out == nil {
		return nil, true, "garbled", stderr
	}
	return r.Out, false, "", stderr
}

// crashKind classifies the stderr of a process that died.
func crashKind(stderr string) string {
	switch {
	case strings.Contains(stderr, "WARNING: DATA RACE"):
		return "race"
	case strings.Contains(stderr, "fatal error:"):
		return "fatal"
	case strings.Contains(stderr, "WATCHDOG"):
		return "hang"
	case strings.Contains(stderr, "\npanic: ") || strings.HasPrefix(stderr, "panic: "):
		return "panic"
	}
	return "exit"
}

var numRe = regexp.MustCompile(`0x[0-9a-f]+|[0-9]+`)

var frameRe = regexp.MustCompile(`github\.com/cosmos/iavl[^\s(]*\.([A-Za-z0-9_\.\(\)\*]+)\(`)

// crashSite extracts the innermost iavl frames from a crash's stderr.
func crashSite(stderr string, afterMarker string) string {
	s := stderr
	if afterMarker != "" {
		if i := strings.Index(s, afterMarker); i >= 0 {
			s = s[i:]
		}
	}
	var out []string
	for _, line := range strings.Split(s, "\n") {
		line = strings.TrimSpace(line)
		if !strings.Contains(line, "github.com/cosmos/iavl") || strings.HasPrefix(line, "/") {
			continue
		}
		name := line
		if i := strings.LastIndex(name, "("); i > 0 {
			name = name[:i]
		}
		name = name[strings.LastIndex(name, "/")+1:]
		name = strings.TrimPrefix(name, "iavl.")
		name = strings.ReplaceAll(name, "(*", "")
		name = strings.ReplaceAll(name, ")", "")
		if len(out) > 0 && out[len(out)-1] == name {
			continue
		}
		out = append(out, name)
		if len(out) == 3 {
			break
		}
	}
	return strings.Join(out, "<")
}

func crashViolation(c *Check, kind, stderr string) *drv.Violation {
	v := &drv.Violation{Prop: c.ID, Oracle: c.ID + ".process", Symptom: kind, Class: "process"}
	switch kind {
	case "fatal":
		i := strings.Index(stderr, "fatal error:")
		msg := firstLine(stderr[i:])
		v.Class = strings.TrimSpace(strings.TrimPrefix(msg, "fatal error:"))
		v.Site = crashSite(stderr, "fatal error:")
	case "race":
		v.Site = crashSite(stderr, "WARNING: DATA RACE")
		v.Class = "data-race"
	case "hang":
		v.Site = crashSite(stderr, "WATCHDOG")
	case "panic":
		i := strings.Index(stderr, "panic: ")
		msg := firstLine(stderr[i:])
		// the message without addresses and numbers is the class
		v.Class = strings.TrimSpace(numRe.ReplaceAllString(strings.TrimPrefix(msg, "panic: "), "N"))
		if len(v.Class) > 80 {
			v.Class = v.Class[:80]
		}
		v.Site = crashSite(stderr, "panic: ")
	}
	v.Detail = kind + ": " + tail(stderr, 3000)
	return v
}

// reproduceCrash re-executes a crashed/hung run in a fresh process.
func reproduceCrash(c *Check, p *drv.Plan, self string) *drv.Violation {
	q := p.Clone()
	q.Extra = nil
	out, died, kind, stderr := ExecInSubprocess(c, q, self)
	if died {
		return crashViolation(c, kind, stderr)
	}
	if out != nil && len(out.Violations) > 0 {
		return out.Violations[0]
	}
	return nil
}

// evaluator returns the violation of the wanted class a plan produces, if any.
type evaluator func(p *drv.Plan) *drv.Violation

func makeEvaluator(c *Check, want *drv.Violation, self string) evaluator {
	sub := want.Oracle == c.ID+".process"
	return func(p *drv.Plan) *drv.Violation {
		if sub {
			limit := c.RunTimeout + 15*time.Second
			if want.Symptom == "hang" {
				// a run normally takes milliseconds: while minimising, a candidate
				// that is still running after a few seconds counts as hanging (the
				// final replay uses the full watchdog again)
				limit = 6 * time.Second
			}
			out, died, kind, stderr := execInSubprocessT(c, p, self, limit)
			if died {
				v := crashViolation(c, kind, stderr)
				if v.SameClass(want) {
					return v
				}
				return nil
			}
			_ = out
			return nil
		}
		done := make(chan *Out, 1)
		go func() { done <- SafeExec(c, p) }()
		select {
		case out := <-done:
			for _, v := range out.Violations {
				if v.SameClass(want) {
					return v
				}
			}
		case <-time.After(c.RunTimeout):
			// a candidate that hangs is not a reproduction of a non-hang violation
		}
		return nil
	}
}

// DDMinSteps minimises the step list with delta debugging.
func DDMinSteps(p *drv.Plan, eval evaluator, budget *int, deadline time.Time) *drv.Plan {
	cur := p.Clone()
	n := 2
	for len(cur.Steps) >= 2 && *budget > 0 && time.Now().Before(deadline) {
		chunk := (len(cur.Steps) + n - 1) / n
		reduced := false
		for i := 0; i < len(cur.Steps) && *budget > 0 && time.Now().Before(deadline); i += chunk {
			j := i + chunk
			if j > len(cur.Steps) {
				j = len(cur.Steps)
			}
			cand := cur.Clone()
			cand.Steps = append(append([]drv.Step{}, cur.Steps[:i]...), cur.Steps[j:]...)
			*budget--
			if eval(cand) != nil {
				cur = cand
				if n > 2 {
					n--
				}
				reduced = true
				break
			}
		}
		if !reduced {
			if chunk == 1 {
				break
			}
			n *= 2
			if n > len(cur.Steps) {
				n = len(cur.Steps)
			}
		}
	}
	return cur
}

// genericShrink minimises steps, then faults, then the configuration.
func genericShrink(c *Check, p *drv.Plan, want *drv.Violation, self string) *drv.Plan {
	eval := makeEvaluator(c, want, self)
	budget := 600
	if want.Oracle == c.ID+".process" {
		budget = 60
		if want.Symptom == "hang" {
			budget = 14
		}
	}
	deadline := time.Now().Add(90 * time.Second)
	if eval(p) == nil {
		return p
	}
	cur := DDMinSteps(p, eval, &budget, deadline)
	try := func(mut func(q *drv.Plan) bool) {
		if budget <= 0 || time.Now().After(deadline) {
			return
		}
		q := cur.Clone()
		if !mut(q) {
			return
		}
		budget--
		if eval(q) != nil {
			cur = q
		}
	}
	try(func(q *drv.Plan) bool {
		if q.Twin == nil {
			return false
		}
		q.Twin = nil
		return true
	})
	for i := len(cur.Crashes) - 1; i >= 0; i-- {
		i := i
		try(func(q *drv.Plan) bool {
			if i >= len(q.Crashes) || len(q.Crashes) <= 1 {
				return false
			}
			q.Crashes = append(q.Crashes[:i:i], q.Crashes[i+1:]...)
			return true
		})
	}
	for i := len(cur.IOFaults) - 1; i >= 0; i-- {
		i := i
		try(func(q *drv.Plan) bool {
			if i >= len(q.IOFaults) || len(q.IOFaults) <= 1 {
				return false
			}
			q.IOFaults = append(q.IOFaults[:i:i], q.IOFaults[i+1:]...)
			return true
		})
	}
	for i := len(cur.Chan) - 1; i >= 0; i-- {
		i := i
		try(func(q *drv.Plan) bool {
			if i >= len(q.Chan) || len(q.Chan) <= 1 {
				return false
			}
			q.Chan = append(q.Chan[:i:i], q.Chan[i+1:]...)
			return true
		})
	}
	if len(cur.Schedule) > 0 {
		// schedules shrink towards "no preemption except where needed"
		for n := len(cur.Schedule) / 2; n >= 1 && budget > 0; n /= 2 {
			for i := 0; i+n <= len(cur.Schedule) && budget > 0; {
				q := cur.Clone()
				q.Schedule = append(append([]int{}, cur.Schedule[:i]...), cur.Schedule[i+n:]...)
				budget--
				if eval(q) != nil {
					cur = q
				} else {
					i += n
				}
			}
		}
	}
	try(func(q *drv.Plan) bool {
		if q.Config.Cache == 0 {
			return false
		}
		q.Config.Cache = 0
		return true
	})
	try(func(q *drv.Plan) bool {
		if q.Config.Sync == false && !q.Config.AcctLDB {
			return false
		}
		q.Config.Sync = false
		q.Config.AcctLDB = false
		return true
	})
	try(func(q *drv.Plan) bool {
		if q.Config.InitVer == 0 {
			return false
		}
		q.Config.InitVer = 0
		q.Config.InitMode = ""
		return true
	})
	// one more pass over steps after the configuration changed
	cur = DDMinSteps(cur, eval, &budget, deadline)
	return cur
}

// minimiseAndWrite shrinks, writes the replay file and confirms it in a fresh process.
func minimiseAndWrite(c *Check, p *drv.Plan, v *drv.Violation, self string) (string, bool) {
	if p == nil {
		return "", false
	}
	orig := p.Clone()
	orig.Extra = nil
	// Minimisation re-executes hundreds of candidate plans; it runs in a
	// process of its own because a candidate may kill the process it runs in
	// (a panic on a goroutine started by the code under test cannot be recovered).
	min := shrinkInSubprocess(c, orig, v, self)
	if min == nil {
		min = orig
	}
	write := func(q *drv.Plan, vv *drv.Violation, suffix string) string {
		q = q.Clone()
		q.Expect = &drv.Expect{Prop: vv.Prop, Oracle: vv.Oracle, Symptom: vv.Symptom, Class: vv.Class, Site: vv.Site, Detail: firstLine(vv.Detail)}
		name := fmt.Sprintf("%s-%s-%d-%d%s.json", c.ID, sanitize(vv.Oracle+"-"+vv.Symptom+"-"+vv.Class), q.Seed, q.Run, suffix)
		path := filepath.Join(ReplayDir(), name)
		b, _ := json.MarshalIndent(q, "", " ")
		_ = os.WriteFile(path, b, 0o644)
		return path
	}
	path := write(min, v, "")
	if code := ReplayFile(path, self, true); code == 1 {
		return path, true
	}
	// the minimised plan does not reproduce in a fresh process: keep the original
	path = write(orig, v, "-unminimised")
	if code := ReplayFile(path, self, true); code == 1 {
		return path, true
	}
	return path, false
}

func sanitize(s string) string {
	var sb strings.Builder
	for _, r := range s {
		switch {
		case r >= 'a' && r <= 'z', r >= 'A' && r <= 'Z', r >= '0' && r <= '9', r == '-', r == '.':
			sb.WriteRune(r)
		default:
			sb.WriteRune('_')
		}
	}
	out := sb.String()
	if len(out) > 80 {
		out = out[:80]
	}
	return out
}

// ReplayFile executes a replay file in a fresh process (when self != "") and
// returns 1 iff the expected violation is reproduced, 0 if nothing fails and 2
// if something else happens.
func ReplayFile(path string, self string, quiet bool) int {
	b, err := os.ReadFile(path)
	if err != nil {
		fmt.Fprintf(os.Stderr, "replay: %v\n", err)
		return 2
	}
	var p drv.Plan
	if err := json.Unmarshal(b, &p); err != nil {
		fmt.Fprintf(os.Stderr, "replay: %v\n", err)
		return 2
	}
	c := Get(p.Property)
	if c == nil {
		fmt.Fprintf(os.Stderr, "replay: unknown property %q\n", p.Property)
		return 2
	}
	exp := p.Expect
	q := p.Clone()
	q.Expect = nil
	var got []*drv.Violation
	out, died, kind, stderr := ExecInSubprocess(c, q, self)
	if died {
		got = append(got, crashViolation(c, kind, stderr))
	} else if out != nil {
		got = out.Violations
	}
	if exp == nil {
		if len(got) == 0 {
			if !quiet {
				fmt.Println("replay: no violation")
			}
			return 0
		}
		if !quiet {
			fmt.Printf("VIOLATION property=%s replay=%s\n  %s\n", c.ID, path, got[0].Error())
		}
		return 1
	}
	want := &drv.Violation{Prop: exp.Prop, Oracle: exp.Oracle, Symptom: exp.Symptom, Class: exp.Class, Site: exp.Site}
	for _, v := range got {
		if v.SameClass(want) {
			if !quiet {
				fmt.Printf("VIOLATION property=%s replay=%s\n  reproduced: %s\n", c.ID, path, v.Error())
			}
			return 1
		}
	}
	if len(got) == 0 {
		if !quiet {
			fmt.Println("replay: no violation (expected " + want.Sig() + ")")
		}
		return 0
	}
	if !quiet {
		fmt.Printf("replay: a different violation occurred: %s (expected %s)\n", got[0].Error(), want.Sig())
	}
	return 2
}

// ShrinkFile is the body of `verif shrink <in> <out>`: it minimises the plan in
// <in> (whose Expect names the violation to preserve) and writes the result to <out>.
func ShrinkFile(in, out, self string) int {
	b, err := os.ReadFile(in)
	if err != nil {
		return 2
	}
	var p drv.Plan
	if err := json.Unmarshal(b, &p); err != nil || p.Expect == nil {
		return 2
	}
	c := Get(p.Property)
	if c == nil {
		return 2
	}
	e := p.Expect
	want := &drv.Violation{Prop: e.Prop, Oracle: e.Oracle, Symptom: e.Symptom, Class: e.Class, Site: e.Site}
	p.Expect = nil
	var min *drv.Plan
	if c.Shrink != nil {
		min = c.Shrink(c, &p, want)
	} else {
		min = genericShrink(c, &p, want, self)
	}
	ob, _ := json.Marshal(min)
	if err := os.WriteFile(out, ob, 0o644); err != nil {
		return 2
	}
	return 0
}

func shrinkInSubprocess(c *Check, p *drv.Plan, v *drv.Violation, self string) *drv.Plan {
	dir, err := os.MkdirTemp("", "verif-shrink-")
	if err != nil {
		return nil
	}
	defer os.RemoveAll(dir)
	q := p.Clone()
	q.Expect = &drv.Expect{Prop: v.Prop, Oracle: v.Oracle, Symptom: v.Symptom, Class: v.Class, Site: v.Site}
	in, out := filepath.Join(dir, "in.json"), filepath.Join(dir, "out.json")
	b, _ := json.Marshal(q)
	if err := os.WriteFile(in, b, 0o644); err != nil {
		return nil
	}
	ctx, cancel := context.WithTimeout(context.Background(), 200*time.Second)
	defer cancel()
	cmd := exec.CommandContext(ctx, self, "shrink", in, out)
	cmd.Env = append(os.Environ(), "GORACE=halt_on_error=1 exitcode=66")
	if err := cmd.Run(); err != nil {
		return nil
	}
	ob, err := os.ReadFile(out)
	if err != nil {
		return nil
	}
	var m drv.Plan
	if err := json.Unmarshal(ob, &m); err != nil {
		return nil
	}
	m.Expect = nil
	return &m
}
