package drvdb

import (
	"bytes"
	"crypto/sha256"
	"encoding/hex"
	"fmt"
	"hash"
	"os"
	"runtime"
	"sort"
	"strings"

	corestore "cosmossdk.io/core/store"
	dbm "github.com/cosmos/iavl/db"
	"github.com/syndtr/goleveldb/leveldb/filter"
	"github.com/syndtr/goleveldb/leveldb/opt"

	"verif/drv"
)

// Result is what executing one program produced.
type Result struct {
	Violations []*drv.Violation
	Probes     map[string]int
	Stats      map[string]int
	NonTrivial bool
	Trace      string
	Sample     string
	// concurrent mode only
	Schedule []int
	Tainted  bool
	States   []string
}

// family is one underlying store (MemDB or GoLevelDB) with the views
// (root, PrefixDB, nested PrefixDB) and batches opened on it.
type family struct {
	name    string
	root    corestore.KVStoreWithBatch
	dir     string // LevelDB scratch directory
	views   map[string]corestore.KVStoreWithBatch
	batches map[int64]corestore.Batch
}

func (f *family) view(path string, comps [][]byte) corestore.KVStoreWithBatch {
	if v, ok := f.views[path]; ok {
		return v
	}
	v := f.root
	for _, c := range comps {
		v = dbm.NewPrefixDB(v, cp(c))
	}
	f.views[path] = v
	return v
}

// stack names the backend stack a view of n prefix components is.
func (f *family) stack(n int) string {
	switch n {
	case 0:
		return f.name
	case 1:
		return "PrefixDB(" + f.name + ")"
	default:
		return "PrefixDB(PrefixDB(" + f.name + "))"
	}
}

type executor struct {
	m     *Model
	fams  []*family
	h     hash.Hash
	res   *Result
	vios  []*drv.Violation
	iter2 bool // an iterator comparison over a view holding >= 2 keys happened
	pwrit bool // a write through a prefixed view happened
	small bool // LevelDB opened with small buffers (Plan.Mode)
}

func (x *executor) log(format string, a ...interface{}) { fmt.Fprintf(x.h, format+"\n", a...) }
func (x *executor) probe(name string)                   { x.res.Probes[name]++ }

func allFF(b []byte) bool {
	for _, c := range b {
		if c != 0xFF {
			return false
		}
	}
	return len(b) > 0
}

// pfxShape classifies the prefixes of a view: none (root), carry (a component
// ends in 0xFF but is not all 0xFF, so its upper bound needs a carry), all-ff
// (a component has no upper bound), plain.
func pfxShape(comps [][]byte) string {
	if len(comps) == 0 {
		return "none"
	}
	shape := "plain"
	for _, c := range comps {
		if allFF(c) {
			if shape == "plain" {
				shape = "all-ff"
			}
		} else if c[len(c)-1] == 0xFF {
			shape = "carry"
		}
	}
	return shape
}

// succ returns the smallest byte string greater than every string with prefix
// p (nil if there is none).
func succ(p []byte) []byte {
	for i := len(p) - 1; i >= 0; i-- {
		if p[i] != 0xFF {
			out := cp(p[:i+1])
			out[i]++
			return out
		}
	}
	return nil
}

// sameLenIncr is the same-length big-endian increment of p (nil on overflow):
// an upper bound of the namespace p that is looser than succ(p) when p ends in
// 0xFF ("p\xff" -> "q\x00" where succ is "q").
func sameLenIncr(p []byte) []byte {
	out := cp(p)
	for i := len(out) - 1; i >= 0; i-- {
		if out[i] != 0xFF {
			out[i]++
			return out
		}
		out[i] = 0
	}
	return nil
}

// carryWitness reports whether the store holds a key k with
// Q+succ(c) <= k < Q+sameLenIncr(c), where c is the innermost prefix component
// an unbounded end is translated by (every component after it is all 0xFF and
// passes nil on) and Q is the prefix of the views above it.
func (x *executor) carryWitness(comps [][]byte) bool {
	i := len(comps) - 1
	for i >= 0 && allFF(comps[i]) {
		i--
	}
	if i < 0 || comps[i][len(comps[i])-1] != 0xFF {
		return false
	}
	q := effPrefix(comps[:i])
	lo, hi := cat(q, succ(comps[i])), cat(q, sameLenIncr(comps[i]))
	for k := range x.m.data {
		if bytes.Compare([]byte(k), lo) >= 0 && bytes.Compare([]byte(k), hi) < 0 {
			return true
		}
	}
	return false
}

func fmtB(b []byte) string {
	if b == nil {
		return "nil"
	}
	return "'" + hex.EncodeToString(b) + "'"
}

func fmtKVs(kvs []KV) string {
	var sb strings.Builder
	sb.WriteString("[")
	for i, kv := range kvs {
		if i > 0 {
			sb.WriteString(" ")
		}
		if i >= 80 {
			fmt.Fprintf(&sb, "...(%d)", len(kvs))
			break
		}
		sb.WriteString(hex.EncodeToString(kv.K) + "=" + hex.EncodeToString(kv.V))
	}
	sb.WriteString("]")
	return sb.String()
}

func (x *executor) vio(f *family, ncomps int, s drv.Step, oracle, symptom, op, site, detail string) *drv.Violation {
	return &drv.Violation{
		Prop: "C18", Oracle: "C18." + oracle, Symptom: symptom,
		Class: op + "@" + f.stack(ncomps), Site: site, StepID: s.ID,
		Detail: fmt.Sprintf("%s on %s: %s; step {%s}; model root %s", op, f.stack(ncomps), detail, RenderStep(s), fmtKVs(x.m.Root())),
	}
}

// guard runs fn for one family, turning a panic of the backend into a violation.
func (x *executor) guard(f *family, ncomps int, s drv.Step, op, site string, fn func() *drv.Violation) {
	var v *drv.Violation
	func() {
		defer func() {
			if r := recover(); r != nil {
				buf := make([]byte, 4096)
				n := runtime.Stack(buf, false)
				v = x.vio(f, ncomps, s, "no-panic", "panic", op, site, fmt.Sprintf("panic: %v\n%s", r, buf[:n]))
				x.log("panic %s %s", f.name, op)
			}
		}()
		v = fn()
	}()
	if v != nil {
		x.vios = append(x.vios, v)
	}
}

// ModeSmallBuffers (Plan.Mode) opens LevelDB through NewGoLevelDBWithOpts with
// the default bloom filter but a 64 KiB write buffer instead of 4 MiB: the
// adapter code under test is the same, a run costs about half.
const ModeSmallBuffers = "ldb-small-buffers"

func (x *executor) openLevelDB(dir string) (*dbm.GoLevelDB, error) {
	if x.small {
		return dbm.NewGoLevelDBWithOpts("kv", dir, &opt.Options{Filter: filter.NewBloomFilter(10), WriteBuffer: 64 << 10, BlockCacheCapacity: 256 << 10})
	}
	return dbm.NewGoLevelDB("kv", dir)
}

func errs(err error) string {
	if err != nil {
		return "err"
	}
	return "ok"
}

// Exec executes a program. It is a pure function of the plan.
func Exec(p *drv.Plan) *Result {
	x := &executor{m: NewModel(), h: sha256.New(), res: &Result{Probes: map[string]int{}, Stats: map[string]int{}}}
	x.res.Sample = Render(p.Steps, 600)
	for _, name := range probeNames {
		x.res.Probes[name] += 0
	}
	dir, err := os.MkdirTemp(drv.Scratch(), "c18-")
	if err != nil {
		panic("drvdb: cannot create scratch directory: " + err.Error())
	}
	defer os.RemoveAll(dir)
	x.small = p.Mode == ModeSmallBuffers
	ldb, err := x.openLevelDB(dir)
	if err != nil {
		panic("drvdb: cannot open LevelDB in scratch directory: " + err.Error())
	}
	x.fams = []*family{
		{name: "MemDB", root: dbm.NewMemDB(), views: map[string]corestore.KVStoreWithBatch{}, batches: map[int64]corestore.Batch{}},
		{name: "GoLevelDB", root: ldb, dir: dir, views: map[string]corestore.KVStoreWithBatch{}, batches: map[int64]corestore.Batch{}},
	}
	defer func() {
		for _, f := range x.fams {
			func() {
				defer func() { _ = recover() }()
				for _, b := range f.batches {
					_ = b.Close()
				}
				if f.root != nil {
					_ = f.root.Close()
				}
			}()
		}
	}()
	for _, s := range p.Steps {
		if !strings.HasPrefix(s.Op, "db.") {
			continue
		}
		if !x.step(s) {
			x.res.Stats["steps_skipped"]++
			continue
		}
		x.res.Stats["steps"]++
		if len(x.vios) == 0 {
			x.audit(s)
		}
		if len(x.vios) > 0 {
			x.log("violations %d %s", len(x.vios), x.vios[0].Sig())
			break
		}
	}
	x.res.Violations = x.vios
	if len(x.res.Violations) > 3 {
		x.res.Violations = x.res.Violations[:3]
	}
	x.res.NonTrivial = x.iter2 && x.pwrit
	x.res.Trace = hex.EncodeToString(x.h.Sum(nil)[:12])
	return x.res
}

var probeNames = []string{
	"reverse_end_equals_key", "prefix_all_ff", "prefix_carry", "nested_prefix", "batch_reuse", "leveldb_reopen",
	"bound_equal", "bound_between", "bound_outside", "start_gt_end", "start_eq_end", "bounds_nil_nil", "bounds_start_only",
	"bounds_end_only", "bounds_both", "empty_bound_rejected", "empty_key_rejected", "nil_value_rejected",
	"key_equals_prefix_boundary", "key_equals_prefix_succ", "empty_value_reads_nil", "empty_value_stored",
	"iter_partial_close", "iter_empty_result", "batch_same_key_twice", "batch_pending_at_read", "batch_close_idempotent",
	"batch_write_through_prefix", "has_empty_key_no_error", "absent_reads_empty", "carry_succ_key_present",
}

// step executes one step on every family; false = the step was not executable
// (malformed, or naming a batch that does not exist) and was skipped.
func (x *executor) step(s drv.Step) bool {
	switch s.Op {
	case OpGet, OpHas, OpSet, OpDel, OpIter, OpBNew:
		comps, ok := ParseView(s.Codec)
		if !ok {
			return false
		}
		if s.Op == OpBNew {
			if _, dup := x.m.batches[s.N]; dup {
				return false
			}
		}
		x.viewProbes(comps)
		switch s.Op {
		case OpGet, OpHas:
			x.read(s, comps)
		case OpSet, OpDel:
			x.write(s, comps)
		case OpIter:
			x.iter(s, comps)
		case OpBNew:
			x.bnew(s, comps)
		}
		return true
	case OpBOps, OpBWrite, OpBClose, OpBSize:
		b := x.m.batches[s.N]
		if b == nil {
			return false
		}
		comps, _ := ParseView(b.view)
		x.batch(s, b, comps)
		return true
	case OpReopen:
		x.reopen(s)
		return true
	}
	return false
}

func (x *executor) viewProbes(comps [][]byte) {
	if len(comps) == 0 {
		return
	}
	if len(comps) >= 2 {
		x.probe("nested_prefix")
	}
	switch pfxShape(comps) {
	case "carry":
		x.probe("prefix_carry")
	case "all-ff":
		x.probe("prefix_all_ff")
	}
	p := effPrefix(comps)
	if _, ok := x.m.data[string(p)]; ok {
		x.probe("key_equals_prefix_boundary")
	}
	if sc := succ(p); sc != nil {
		if _, ok := x.m.data[string(sc)]; ok {
			x.probe("key_equals_prefix_succ")
		}
	}
}

func (x *executor) pendingProbe() {
	for _, b := range x.m.batches {
		if !b.dead && len(b.ops) > 0 {
			x.probe("batch_pending_at_read")
			return
		}
	}
}

// site is the signature's site field of point and batch operations: empty (the
// stack is in the class; the prefix bytes are in the detail). Iterators carry
// the shape of their bounds and prefixes instead, see iter.
func site(comps [][]byte) string { return "" }

// ------------------------------------------------------------- point reads

func (x *executor) read(s drv.Step, comps [][]byte) {
	p, k := effPrefix(comps), stepKey(s)
	want, present := x.m.Get(p, k)
	empty := len(k) == 0
	x.pendingProbe()
	x.res.Stats["point_comparisons"]++
	op := strings.TrimPrefix(s.Op, "db.")
	x.log("%d %s %s %s", s.ID, op, s.Codec, fmtB(k))
	nilRead, emptyAbsent, hasNoErr := false, false, false
	for _, f := range x.fams {
		f := f
		x.guard(f, len(comps), s, op, site(comps), func() *drv.Violation {
			v := f.view(s.Codec, comps)
			if s.Op == OpHas {
				got, err := v.Has(cp(k))
				x.log(" %s has=%v %s", f.name, got, errs(err))
				switch {
				case empty:
					// The statement only says an empty key is never stored: error or false both agree with it.
					if got {
						return x.vio(f, len(comps), s, "reject", "empty-key-present", op, site(comps), "Has(empty key) = true")
					}
					if err == nil {
						hasNoErr = true
					}
				case err != nil:
					return x.vio(f, len(comps), s, "point", "unexpected-error", op, site(comps), "Has: "+err.Error())
				case got != present:
					return x.vio(f, len(comps), s, "point", "wrong-presence", op, site(comps), fmt.Sprintf("Has = %v, model %v", got, present))
				}
				return nil
			}
			got, err := v.Get(cp(k))
			x.log(" %s get=%s %s", f.name, fmtB(got), errs(err))
			switch {
			case empty:
				if got != nil {
					return x.vio(f, len(comps), s, "reject", "empty-key-present", op, site(comps), "Get(empty key) = "+fmtB(got))
				}
				if err == nil {
					return x.vio(f, len(comps), s, "reject", "missing-error", op, site(comps), "Get(empty key) returned no error")
				}
			case err != nil:
				return x.vio(f, len(comps), s, "point", "unexpected-error", op, site(comps), "Get: "+err.Error())
			case present:
				if !bytes.Equal(got, want) {
					return x.vio(f, len(comps), s, "point", "wrong-value", op, site(comps), fmt.Sprintf("Get = %s, last write %s", fmtB(got), fmtB(want)))
				}
				if got == nil {
					// stored empty value read back as nil: only presence is decided
					nilRead = true
					if ok, err := v.Has(cp(k)); err != nil || !ok {
						return x.vio(f, len(comps), s, "point", "wrong-presence", op, site(comps), fmt.Sprintf("stored empty value: Get = nil and Has = %v,%v", ok, err))
					}
				}
			default:
				if len(got) > 0 {
					return x.vio(f, len(comps), s, "point", "spurious-presence", op, site(comps), "Get of an absent key = "+fmtB(got))
				}
				if got != nil {
					emptyAbsent = true
					if ok, err := v.Has(cp(k)); err != nil || ok {
						return x.vio(f, len(comps), s, "point", "spurious-presence", op, site(comps), fmt.Sprintf("absent key: Get = '' and Has = %v,%v", ok, err))
					}
				}
			}
			return nil
		})
	}
	if empty {
		x.probe("empty_key_rejected")
	}
	if nilRead {
		x.probe("empty_value_reads_nil")
	}
	if emptyAbsent {
		x.probe("absent_reads_empty")
	}
	if hasNoErr {
		x.probe("has_empty_key_no_error")
	}
}

// ------------------------------------------------------------ point writes

func (x *executor) write(s drv.Step, comps [][]byte) {
	p, k, val := effPrefix(comps), stepKey(s), stepVal(s)
	op := strings.TrimPrefix(s.Op, "db.")
	var rejected bool
	if s.Op == OpSet {
		rejected = x.m.Set(p, k, val)
	} else {
		rejected = x.m.Del(p, k)
	}
	x.log("%d %s %s %s %s", s.ID, op, s.Codec, fmtB(k), fmtB(val))
	for _, f := range x.fams {
		f := f
		x.guard(f, len(comps), s, op, site(comps), func() *drv.Violation {
			v := f.view(s.Codec, comps)
			var err error
			if s.Op == OpSet {
				err = v.Set(cp(k), cp(val))
			} else {
				err = v.Delete(cp(k))
			}
			x.log(" %s %s", f.name, errs(err))
			if rejected && err == nil {
				return x.vio(f, len(comps), s, "reject", "missing-error", op, site(comps), fmt.Sprintf("%s(key %s, value %s) returned no error", op, fmtB(k), fmtB(val)))
			}
			if !rejected && err != nil {
				return x.vio(f, len(comps), s, "point", "unexpected-error", op, site(comps), err.Error())
			}
			return nil
		})
	}
	switch {
	case len(k) == 0:
		x.probe("empty_key_rejected")
	case rejected:
		x.probe("nil_value_rejected")
	default:
		if len(comps) > 0 {
			x.pwrit = true
		}
		if s.Op == OpSet && len(val) == 0 {
			x.probe("empty_value_stored")
		}
	}
}

// --------------------------------------------------------------- iterators

func (x *executor) boundProbes(vis []KV, start, end []byte, rev bool) {
	switch {
	case start == nil && end == nil:
		x.probe("bounds_nil_nil")
	case end == nil:
		x.probe("bounds_start_only")
	case start == nil:
		x.probe("bounds_end_only")
	default:
		x.probe("bounds_both")
		switch c := bytes.Compare(start, end); {
		case c > 0:
			x.probe("start_gt_end")
		case c == 0:
			x.probe("start_eq_end")
		}
	}
	for i, b := range [][]byte{start, end} {
		if b == nil || len(vis) == 0 {
			continue
		}
		eq := false
		for _, kv := range vis {
			if bytes.Equal(kv.K, b) {
				eq = true
			}
		}
		switch {
		case eq:
			x.probe("bound_equal")
			if i == 1 && rev {
				x.probe("reverse_end_equals_key")
			}
		case bytes.Compare(b, vis[0].K) < 0 || bytes.Compare(b, vis[len(vis)-1].K) > 0:
			x.probe("bound_outside")
		default:
			x.probe("bound_between")
		}
	}
}

func shape(b []byte) string {
	if b == nil {
		return "nil"
	}
	return "key"
}

func (x *executor) iter(s drv.Step, comps [][]byte) {
	p, start, end := effPrefix(comps), stepKey(s), stepVal(s)
	rev := hasFlag(s, FlagRev)
	limit := int(s.N)
	if limit < 0 {
		limit = 0
	}
	op := "iter-fwd"
	if rev {
		op = "iter-rev"
	}
	st := fmt.Sprintf("pfx=%s;e=%s", pfxShape(comps), shape(end))
	if rev && end == nil && pfxShape(comps) == "carry" {
		// narrow the signature: is a key sitting between the namespace's true upper bound and the
		// same-length increment of the prefix (the only place where the two differ)?
		w := "no"
		if x.carryWitness(comps) {
			w = "yes"
			x.probe("carry_succ_key_present")
		}
		st = "pfx=carry;e=nil;succkey=" + w
	}
	badBound := (start != nil && len(start) == 0) || (end != nil && len(end) == 0)
	vis := x.m.Visible(p)
	var want []KV
	if !badBound {
		want = x.m.Range(p, start, end, rev)
		x.boundProbes(vis, start, end, rev)
		x.res.Stats["iter_comparisons"]++
		if len(vis) >= 2 {
			x.iter2 = true
		}
		if len(want) == 0 {
			x.probe("iter_empty_result")
		}
	} else {
		x.probe("empty_bound_rejected")
	}
	full := want
	if limit > 0 && limit < len(want) {
		want = want[:limit]
		x.probe("iter_partial_close")
	}
	x.pendingProbe()
	x.log("%d %s %s %s %s n=%d", s.ID, op, s.Codec, fmtB(start), fmtB(end), limit)
	maxItems := len(x.m.data) + 8
	for _, f := range x.fams {
		f := f
		x.guard(f, len(comps), s, op, st, func() (vio *drv.Violation) {
			v := f.view(s.Codec, comps)
			var it corestore.Iterator
			var err error
			if rev {
				it, err = v.ReverseIterator(cp(start), cp(end))
			} else {
				it, err = v.Iterator(cp(start), cp(end))
			}
			x.log(" %s open %s", f.name, errs(err))
			if err != nil {
				if badBound {
					return nil
				}
				return x.vio(f, len(comps), s, "iter", "unexpected-error", op, st, err.Error())
			}
			closed := false
			defer func() {
				if !closed {
					func() { defer func() { _ = recover() }(); _ = it.Close() }()
				}
			}()
			if badBound {
				return x.vio(f, len(comps), s, "reject", "missing-error", op, st, fmt.Sprintf("empty non-nil bound accepted (start %s end %s)", fmtB(start), fmtB(end)))
			}
			ds, de := it.Domain()
			if !bytes.Equal(ds, start) || !bytes.Equal(de, end) || (ds == nil) != (start == nil) || (de == nil) != (end == nil) {
				return x.vio(f, len(comps), s, "iter", "wrong-domain", op, st, fmt.Sprintf("Domain() = %s,%s, given %s,%s", fmtB(ds), fmtB(de), fmtB(start), fmtB(end)))
			}
			var got []KV
			for it.Valid() {
				if limit > 0 && len(got) >= limit {
					break
				}
				if len(got) > maxItems {
					return x.vio(f, len(comps), s, "iter", "extra-keys", op, st, fmt.Sprintf("iterator does not end: %d items so far, got %s", len(got), fmtKVs(got)))
				}
				got = append(got, KV{cp(it.Key()), cp(it.Value())})
				it.Next()
			}
			x.log(" %s items %s", f.name, fmtKVs(got))
			if sym, d := diffKVs(got, want, full); sym != "" {
				return x.vio(f, len(comps), s, "iter", sym, op, st, fmt.Sprintf("bounds [%s,%s) limit %d: got %s, want %s (%s); view holds %s", fmtB(start), fmtB(end), limit, fmtKVs(got), fmtKVs(want), d, fmtKVs(vis)))
			}
			if limit == 0 || len(got) < limit {
				// exhausted: must stay invalid, without an error
				if it.Valid() || it.Valid() {
					return x.vio(f, len(comps), s, "iter", "valid-after-end", op, st, "Valid() turned true again after it had returned false")
				}
				if err := it.Error(); err != nil {
					return x.vio(f, len(comps), s, "iter", "unexpected-error", op, st, "Error() after exhaustion: "+err.Error())
				}
			}
			closed = true
			if err := it.Close(); err != nil {
				return x.vio(f, len(comps), s, "iter", "unexpected-error", op, st, "Close: "+err.Error())
			}
			return nil
		})
	}
}

// diffKVs names the difference between what an iterator yielded and the model.
func diffKVs(got, want, full []KV) (symptom, detail string) {
	same := len(got) == len(want)
	for i := 0; same && i < len(got); i++ {
		if !bytes.Equal(got[i].K, want[i].K) {
			same = false
		}
	}
	if same {
		for i := range got {
			if !bytes.Equal(got[i].V, want[i].V) {
				return "wrong-value", fmt.Sprintf("key %s carries %s, last write %s", fmtB(got[i].K), fmtB(got[i].V), fmtB(want[i].V))
			}
		}
		return "", ""
	}
	inFull := map[string]bool{}
	for _, kv := range full {
		inFull[string(kv.K)] = true
	}
	for _, kv := range got {
		if !inFull[string(kv.K)] {
			return "extra-keys", "key " + fmtB(kv.K) + " is not in [start,end) of the view"
		}
	}
	if len(got) == 0 {
		return "empty-iterator", fmt.Sprintf("nothing yielded, %d keys expected", len(want))
	}
	inGot := map[string]bool{}
	for _, kv := range got {
		inGot[string(kv.K)] = true
	}
	for _, kv := range want {
		if !inGot[string(kv.K)] {
			return "missing-keys", "key " + fmtB(kv.K) + " not yielded"
		}
	}
	return "wrong-order", "same keys, different order or repetition"
}

// ------------------------------------------------------------------ batches

func (x *executor) bnew(s drv.Step, comps [][]byte) {
	x.m.batches[s.N] = &mbatch{view: s.Codec, prefix: effPrefix(comps)}
	sized := hasFlag(s, FlagSized)
	x.log("%d bnew %s #%d sized=%v", s.ID, s.Codec, s.N, sized)
	for _, f := range x.fams {
		f := f
		x.guard(f, len(comps), s, "bnew", site(comps), func() *drv.Violation {
			v := f.view(s.Codec, comps)
			if sized {
				f.batches[s.N] = v.NewBatchWithSize(64)
			} else {
				f.batches[s.N] = v.NewBatch()
			}
			return nil
		})
	}
}

func (x *executor) batch(s drv.Step, b *mbatch, comps [][]byte) {
	op := strings.TrimPrefix(s.Op, "db.")
	wasDead := b.dead
	st := site(comps)
	if wasDead {
		if s.Op == OpBClose {
			x.probe("batch_close_idempotent")
		} else {
			x.probe("batch_reuse")
			if st != "" {
				st += ";"
			}
			st += "reuse"
		}
	}
	var rej []bool
	switch s.Op {
	case OpBOps:
		for _, c := range s.CS {
			for _, q := range b.ops {
				if bytes.Equal(q.k, cat(b.prefix, c.K)) {
					x.probe("batch_same_key_twice")
					break
				}
			}
			r := b.BatchOp(c.Del, c.K, c.V)
			rej = append(rej, r)
			if r && !wasDead {
				if len(c.K) == 0 {
					x.probe("empty_key_rejected")
				} else {
					x.probe("nil_value_rejected")
				}
			}
		}
	case OpBWrite:
		nset := len(b.ops)
		rej = []bool{x.m.Write(b)}
		if !rej[0] && len(comps) > 0 && nset > 0 {
			x.pwrit = true
			x.probe("batch_write_through_prefix")
		}
	case OpBClose:
		b.dead, b.ops = true, nil
	}
	x.log("%d %s #%d dead=%v", s.ID, op, s.N, wasDead)
	for _, f := range x.fams {
		f := f
		x.guard(f, len(comps), s, op, st, func() *drv.Violation {
			fb := f.batches[s.N]
			if fb == nil {
				return nil // cannot happen: model and families create batches together
			}
			switch s.Op {
			case OpBOps:
				for i, c := range s.CS {
					var err error
					name := "batch.Set"
					if c.Del {
						name = "batch.Delete"
						err = fb.Delete(cp(c.K))
					} else {
						err = fb.Set(cp(c.K), cp(c.V))
					}
					x.log(" %s %d %s", f.name, i, errs(err))
					if rej[i] && err == nil {
						or := "reject"
						if wasDead {
							or = "batch"
						}
						return x.vio(f, len(comps), s, or, "missing-error", op, st, fmt.Sprintf("%s(key %s, value %s) on a batch (written/closed=%v) returned no error", name, fmtB(c.K), fmtB(c.V), wasDead))
					}
					if !rej[i] && err != nil {
						return x.vio(f, len(comps), s, "batch", "unexpected-error", op, st, name+": "+err.Error())
					}
				}
			case OpBWrite:
				var err error
				if hasFlag(s, FlagSync) {
					err = fb.WriteSync()
				} else {
					err = fb.Write()
				}
				x.log(" %s %s", f.name, errs(err))
				if rej[0] && err == nil {
					return x.vio(f, len(comps), s, "batch", "missing-error", op, st, "Write on a written/closed batch returned no error")
				}
				if !rej[0] && err != nil {
					return x.vio(f, len(comps), s, "batch", "unexpected-error", op, st, "Write: "+err.Error())
				}
			case OpBClose:
				err := fb.Close()
				x.log(" %s %s", f.name, errs(err))
				if err != nil {
					return x.vio(f, len(comps), s, "batch", "unexpected-error", op, st, "Close: "+err.Error())
				}
			case OpBSize:
				n, err := fb.GetByteSize()
				x.log(" %s %d %s", f.name, n, errs(err))
				if wasDead && err == nil {
					return x.vio(f, len(comps), s, "batch", "missing-error", op, st, "GetByteSize on a written/closed batch returned no error")
				}
				if !wasDead && (err != nil || n < 0) {
					return x.vio(f, len(comps), s, "batch", "unexpected-error", op, st, fmt.Sprintf("GetByteSize = %d, %v", n, err))
				}
			}
			return nil
		})
	}
}

// ------------------------------------------------------------------ restart

func (x *executor) reopen(s drv.Step) {
	x.log("%d reopen", s.ID)
	x.probe("leveldb_reopen")
	x.m.batches = map[int64]*mbatch{}
	for _, f := range x.fams {
		f := f
		x.guard(f, 0, s, "reopen", "", func() *drv.Violation {
			ids := make([]int64, 0, len(f.batches))
			for id := range f.batches {
				ids = append(ids, id)
			}
			sort.Slice(ids, func(i, j int) bool { return ids[i] < ids[j] })
			for _, id := range ids {
				if err := f.batches[id].Close(); err != nil {
					return x.vio(f, 0, s, "batch", "unexpected-error", "reopen", "", "batch.Close: "+err.Error())
				}
			}
			f.batches = map[int64]corestore.Batch{}
			f.views = map[string]corestore.KVStoreWithBatch{}
			if f.dir == "" {
				return nil // MemDB has no durable state; Close is documented as a no-op
			}
			if err := f.root.Close(); err != nil {
				return x.vio(f, 0, s, "restart", "unexpected-error", "reopen", "", "Close: "+err.Error())
			}
			f.root = nil
			db, err := x.openLevelDB(f.dir)
			if err != nil {
				return x.vio(f, 0, s, "restart", "load-fails", "reopen", "", "reopen: "+err.Error())
			}
			f.root = db
			return nil
		})
	}
}

// -------------------------------------------------------------------- audit

// audit compares the complete root-level contents of every family with the
// model after a step. Because the model of an operation through a prefixed
// view only ever changes prefix+key, any other change of the parent shows here.
func (x *executor) audit(s drv.Step) {
	want := x.m.Root()
	x.res.Stats["audits"]++
	var comps [][]byte
	if b := x.m.batches[s.N]; b != nil && (s.Op == OpBOps || s.Op == OpBWrite || s.Op == OpBClose || s.Op == OpBSize) {
		comps, _ = ParseView(b.view)
	} else if s.Op != OpReopen {
		comps, _ = ParseView(s.Codec)
	}
	p := effPrefix(comps)
	op := strings.TrimPrefix(s.Op, "db.")
	for _, f := range x.fams {
		f := f
		if f.root == nil {
			continue
		}
		x.guard(f, len(comps), s, op, site(comps), func() *drv.Violation {
			it, err := f.root.Iterator(nil, nil)
			if err != nil {
				return x.vio(f, len(comps), s, "iter", "unexpected-error", op, site(comps), "audit Iterator(nil,nil): "+err.Error())
			}
			var got []KV
			for ; it.Valid() && len(got) <= len(want)+8; it.Next() {
				got = append(got, KV{cp(it.Key()), cp(it.Value())})
			}
			_ = it.Close()
			x.log(" audit %s %s", f.name, fmtKVs(got))
			bad, ok := firstDiff(got, want)
			if ok {
				return nil
			}
			oracle, sym := "point", "state-diverged"
			switch {
			case len(bad) == 0:
				oracle, sym = "reject", "empty-key-stored"
			case len(comps) > 0 && !(len(bad) > len(p) && bytes.HasPrefix(bad, p)):
				oracle, sym = "isolation", "outside-prefix-changed"
			case s.Op == OpSet && stepVal(s) == nil:
				oracle, sym = "reject", "nil-value-stored"
			case s.Op == OpReopen:
				oracle, sym = "restart", "state-diverged"
			case s.Op == OpBOps || s.Op == OpBNew || s.Op == OpBClose || s.Op == OpBSize:
				oracle, sym = "batch", "visible-before-write"
			case s.Op == OpBWrite:
				oracle, sym = "batch", "batch-apply-diverged"
			case s.Op == OpGet || s.Op == OpHas || s.Op == OpIter:
				oracle, sym = "point", "read-changed-state"
			}
			return x.vio(f, len(comps), s, oracle, sym, op, site(comps), fmt.Sprintf("after the step the underlying store differs from the model at root key %s: store %s", fmtB(bad), fmtKVs(got)))
		})
	}
}

// firstDiff returns the first root key at which two ascending listings differ.
func firstDiff(got, want []KV) (key []byte, same bool) {
	for i := 0; i < len(got) || i < len(want); i++ {
		switch {
		case i >= len(got):
			return want[i].K, false
		case i >= len(want):
			return got[i].K, false
		case !bytes.Equal(got[i].K, want[i].K):
			if bytes.Compare(got[i].K, want[i].K) < 0 {
				return got[i].K, false
			}
			return want[i].K, false
		case !bytes.Equal(got[i].V, want[i].V):
			return got[i].K, false
		}
	}
	return nil, true
}

// ---------------------------------------------------------------- rendering

// RenderStep renders one step compactly.
func RenderStep(s drv.Step) string {
	op := strings.TrimPrefix(s.Op, "db.")
	view := s.Codec
	if view == "" {
		view = "root"
	}
	switch s.Op {
	case OpGet, OpHas, OpDel:
		return fmt.Sprintf("%d:%s@%s %s", s.ID, op, view, fmtB(stepKey(s)))
	case OpSet:
		return fmt.Sprintf("%d:set@%s %s=%s", s.ID, view, fmtB(stepKey(s)), fmtB(stepVal(s)))
	case OpIter:
		dir := "fwd"
		if hasFlag(s, FlagRev) {
			dir = "rev"
		}
		return fmt.Sprintf("%d:iter-%s@%s [%s,%s) n=%d", s.ID, dir, view, fmtB(stepKey(s)), fmtB(stepVal(s)), s.N)
	case OpBNew:
		return fmt.Sprintf("%d:bnew@%s #%d", s.ID, view, s.N)
	case OpBOps:
		var parts []string
		for _, c := range s.CS {
			if c.Del {
				parts = append(parts, "del "+fmtB(c.K))
			} else {
				parts = append(parts, fmtB(c.K)+"="+fmtB(c.V))
			}
		}
		return fmt.Sprintf("%d:bops #%d {%s}", s.ID, s.N, strings.Join(parts, ", "))
	case OpBWrite:
		if hasFlag(s, FlagSync) {
			op = "bwritesync"
		}
		return fmt.Sprintf("%d:%s #%d", s.ID, op, s.N)
	case OpBClose, OpBSize:
		return fmt.Sprintf("%d:%s #%d", s.ID, op, s.N)
	case "cb.set":
		return fmt.Sprintf("%d:batch-set@%s %s=%s", s.ID, view, fmtB(s.K), fmtB(s.V))
	case "cb.del":
		return fmt.Sprintf("%d:batch-del@%s %s", s.ID, view, fmtB(s.K))
	case "cb.write":
		return fmt.Sprintf("%d:batch-write@%s", s.ID, view)
	case "cr.snap", "cr.revsnap", "cr.get":
		rid := 0
		if s.Cache != nil {
			rid = *s.Cache
		}
		return fmt.Sprintf("%d:reader%d %s@%s %s", s.ID, rid, strings.TrimPrefix(s.Op, "cr."), view, fmtB(s.K))
	}
	return fmt.Sprintf("%d:%s", s.ID, op)
}

// Render renders a program on one line, truncated to max characters.
func Render(steps []drv.Step, max int) string {
	var sb strings.Builder
	for i, s := range steps {
		if i > 0 {
			sb.WriteString(" | ")
		}
		sb.WriteString(RenderStep(s))
		if sb.Len() > max {
			return sb.String()[:max] + fmt.Sprintf(" ...(%d steps)", len(steps))
		}
	}
	return sb.String()
}
