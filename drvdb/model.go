// Package drvdb is the db-backend driver (C18): explicit programs of
// KVStoreWithBatch calls executed on the bundled backends (MemDB, GoLevelDB,
// PrefixDB over either, nested PrefixDB) in lock-step with a sorted-map model.
package drvdb

import (
	"bytes"
	"encoding/hex"
	"sort"
	"strings"

	"verif/drv"
)

// Step op codes (Step.Op). Every step is self-contained: the view it addresses
// is spelled out in Step.Codec and a batch is addressed by its id in Step.N, so
// any subsequence of a program is executable (steps naming a batch that does
// not exist are skipped).
const (
	OpGet    = "db.get"    // Codec=view K=key
	OpHas    = "db.has"    // Codec=view K=key
	OpSet    = "db.set"    // Codec=view K=key V=value (nil value = null)
	OpDel    = "db.del"    // Codec=view K=key
	OpIter   = "db.iter"   // Codec=view K=start V=end N=items to consume (0 = all) Reads: rev, s=empty
	OpBNew   = "db.bnew"   // Codec=view N=batch id Reads: sized
	OpBOps   = "db.bops"   // N=batch id CS=ops
	OpBWrite = "db.bwrite" // N=batch id Reads: sync
	OpBClose = "db.bclose" // N=batch id
	OpBSize  = "db.bsize"  // N=batch id
	OpReopen = "db.reopen" // close every batch, close + reopen the LevelDB family
)

// Flags carried in Step.Reads.
const (
	FlagRev    = "rev"     // reverse iterator
	FlagKEmpty = "k=empty" // Step.K of length 0 stands for []byte{} instead of nil
	FlagSync   = "sync"    // WriteSync instead of Write
	FlagSized  = "sized"   // NewBatchWithSize instead of NewBatch
)

func hasFlag(s drv.Step, f string) bool {
	for _, x := range s.Reads {
		if x == f {
			return true
		}
	}
	return false
}

// stepKey returns the key / start bound of a step. Step.K is dropped by JSON
// when empty, so nil and []byte{} are told apart by a flag.
func stepKey(s drv.Step) []byte {
	if len(s.K) > 0 {
		return []byte(s.K)
	}
	if hasFlag(s, FlagKEmpty) {
		return []byte{}
	}
	return nil
}

// stepVal returns the value / end bound (Step.V keeps nil vs empty in JSON).
func stepVal(s drv.Step) []byte {
	if s.V == nil {
		return nil
	}
	return []byte(s.V)
}

// ViewPath renders prefix components as a Step.Codec value ("" = root view).
func ViewPath(comps ...[]byte) string {
	parts := make([]string, len(comps))
	for i, c := range comps {
		parts[i] = hex.EncodeToString(c)
	}
	return strings.Join(parts, "/")
}

// ParseView decodes a Step.Codec value; ok=false for a malformed path.
func ParseView(path string) (comps [][]byte, ok bool) {
	if path == "" {
		return nil, true
	}
	for _, p := range strings.Split(path, "/") {
		b, err := hex.DecodeString(p)
		if err != nil || len(b) == 0 {
			return nil, false
		}
		comps = append(comps, b)
	}
	return comps, true
}

func effPrefix(comps [][]byte) []byte {
	var out []byte
	for _, c := range comps {
		out = append(out, c...)
	}
	return out
}

func cat(a, b []byte) []byte {
	out := make([]byte, 0, len(a)+len(b))
	out = append(out, a...)
	return append(out, b...)
}

func cp(b []byte) []byte {
	if b == nil {
		return nil
	}
	out := make([]byte, len(b))
	copy(out, b)
	return out
}

// KV is one key/value pair.
type KV struct{ K, V []byte }

type mop struct {
	del  bool
	k, v []byte // k is the full (root-level) key
}

type mbatch struct {
	view   string
	prefix []byte
	ops    []mop
	dead   bool // written or closed
}

// Model is the specification: one plain sorted map holding the root-level
// keys of a family, plus the pending batches. A view with effective prefix P
// is the map restricted to keys P+k with k non-empty, shown as k.
type Model struct {
	data    map[string][]byte
	batches map[int64]*mbatch
}

// NewModel returns an empty model.
func NewModel() *Model {
	return &Model{data: map[string][]byte{}, batches: map[int64]*mbatch{}}
}

// Root returns the full contents in ascending key order.
func (m *Model) Root() []KV {
	keys := make([]string, 0, len(m.data))
	for k := range m.data {
		keys = append(keys, k)
	}
	sort.Strings(keys)
	out := make([]KV, len(keys))
	for i, k := range keys {
		out[i] = KV{[]byte(k), m.data[k]}
	}
	return out
}

// Visible returns the contents of the view with effective prefix p, ascending.
func (m *Model) Visible(p []byte) []KV {
	var out []KV
	for _, kv := range m.Root() {
		if len(kv.K) > len(p) && bytes.HasPrefix(kv.K, p) {
			out = append(out, KV{kv.K[len(p):], kv.V})
		}
	}
	return out
}

// Range is the iterator specification: the visible keys k with
// start <= k < end (nil = unbounded), ascending or descending.
func (m *Model) Range(p, start, end []byte, rev bool) []KV {
	var out []KV
	for _, kv := range m.Visible(p) {
		if start != nil && bytes.Compare(kv.K, start) < 0 {
			continue
		}
		if end != nil && bytes.Compare(kv.K, end) >= 0 {
			continue
		}
		out = append(out, kv)
	}
	if rev {
		for i, j := 0, len(out)-1; i < j; i, j = i+1, j-1 {
			out[i], out[j] = out[j], out[i]
		}
	}
	return out
}

// Get is the point-read specification.
func (m *Model) Get(p, k []byte) ([]byte, bool) {
	v, ok := m.data[string(cat(p, k))]
	return v, ok
}

// Set applies a direct write; rejected reports that the call must fail.
func (m *Model) Set(p, k, v []byte) (rejected bool) {
	if len(k) == 0 || v == nil {
		return true
	}
	m.data[string(cat(p, k))] = cp(v)
	return false
}

// Del applies a direct delete.
func (m *Model) Del(p, k []byte) (rejected bool) {
	if len(k) == 0 {
		return true
	}
	delete(m.data, string(cat(p, k)))
	return false
}

// BatchOp queues one op; rejected reports that the call must fail (closed
// batch, empty key, nil value) and leave the batch unchanged.
func (b *mbatch) BatchOp(del bool, k, v []byte) (rejected bool) {
	if b.dead || len(k) == 0 || (!del && v == nil) {
		return true
	}
	b.ops = append(b.ops, mop{del: del, k: cat(b.prefix, k), v: cp(v)})
	return false
}

// Write applies the queued ops in order.
func (m *Model) Write(b *mbatch) (rejected bool) {
	if b.dead {
		return true
	}
	for _, op := range b.ops {
		if op.del {
			delete(m.data, string(op.k))
		} else {
			m.data[string(op.k)] = op.v
		}
	}
	b.dead = true
	b.ops = nil
	return false
}
