package drvdb

// Concurrent mode of C18: "a batch applies its operations atomically and in
// order when written" under CONCURRENT readers of the in-memory backend.
//
// One writer task writes a sequence of batches to a MemDB (directly or through
// a PrefixDB view); 1-3 reader tasks take snapshots (one complete iteration,
// which MemDB serves under its read lock) and point reads. The simulated
// scheduler owns every interleaving: a task may be preempted between harness
// operations and at the guarded yield point between two operations of
// memDBBatch.Write - but only where nobody holds the MemDB's lock (lock-probe
// rule). On the unchanged code the lock is held across the whole replay of a
// batch, so the writer is never parked inside it and no reader can see a
// partly applied batch; a change that narrows or drops that lock lets the
// scheduler park the writer there, and the next snapshot is a torn batch.

import (
	"bytes"
	"fmt"
	"runtime"
	"sort"
	"strings"
	"time"

	corestore "cosmossdk.io/core/store"
	dbm "github.com/cosmos/iavl/db"

	"verif/drv"
	"verif/sim"
)

const ModeConcurrent = "concurrent"

// GenConcurrent generates a concurrent program.
func GenConcurrent(r *sim.Rand, tier string) *drv.Plan {
	p := &drv.Plan{Engine: "drvdb", Mode: ModeConcurrent}
	nk := r.Range(2, 6)
	keys := make([][]byte, nk)
	for i := range keys {
		keys[i] = []byte{byte('a' + i)}
		if r.Chance(1, 4) {
			keys[i] = []byte{byte('a' + i), 0xff}
		}
	}
	// the view the writer and the readers use: "" = the MemDB itself
	view := ""
	switch r.Intn(3) {
	case 1:
		view = ViewPath([]byte{0x70})
	case 2:
		view = ViewPath([]byte{0xff}, []byte{0xff})
	}
	id := 0
	ctr := 0
	nb := r.Range(2, 6)
	if tier == "thorough" {
		nb = r.Range(3, 12)
	}
	// one run in six has one LARGE batch (1 100 - 5 000 operations over its own
	// keys): an implementation that applies a batch in chunks (releasing its
	// lock in between, flushing a buffer) is atomic for small batches only
	bigAt := -1
	if r.Chance(1, 6) {
		bigAt = r.Intn(nb)
	}
	for b := 0; b < nb; b++ {
		if b == bigAt {
			n := r.Pick(1100, 1500, 2100, 3000, 5000)
			for i := 0; i < n; i++ {
				id++
				ctr++
				k := []byte(fmt.Sprintf("z%05d", (i*7919)%n))
				p.Steps = append(p.Steps, drv.Step{ID: id, Op: "cb.set", K: k, V: []byte(fmt.Sprintf("B%d.%d", b, ctr)), Codec: view})
			}
			id++
			p.Steps = append(p.Steps, drv.Step{ID: id, Op: "cb.write", N: int64(r.Intn(2)), Codec: view})
			continue
		}
		nops := r.Range(2, 6)
		for i := 0; i < nops; i++ {
			id++
			k := keys[r.Intn(nk)]
			if r.Chance(1, 4) {
				p.Steps = append(p.Steps, drv.Step{ID: id, Op: "cb.del", K: k, Codec: view})
			} else {
				ctr++
				p.Steps = append(p.Steps, drv.Step{ID: id, Op: "cb.set", K: k, V: []byte(fmt.Sprintf("b%d.%d", b, ctr)), Codec: view})
			}
		}
		id++
		p.Steps = append(p.Steps, drv.Step{ID: id, Op: "cb.write", N: int64(r.Intn(2)), Codec: view})
	}
	nr := r.Range(1, 3)
	for rd := 0; rd < nr; rd++ {
		n := r.Range(3, 10)
		for i := 0; i < n; i++ {
			id++
			rid := rd
			op := "cr.snap"
			if r.Chance(1, 4) {
				op = "cr.revsnap"
			} else if r.Chance(1, 5) {
				op = "cr.get"
			}
			p.Steps = append(p.Steps, drv.Step{ID: id, Op: op, Cache: &rid, K: keys[r.Intn(nk)], Codec: view})
		}
	}
	return p
}

type concState struct {
	states  [][]KV // states[j] = visible contents of the view after j complete batches
	started int    // batches whose Write has been called
	done    int    // batches whose Write has returned
}

func applyOps(cur []KV, ops []drv.Step) []KV {
	m := map[string][]byte{}
	for _, kv := range cur {
		m[string(kv.K)] = kv.V
	}
	for _, o := range ops {
		if o.Op == "cb.set" {
			m[string(o.K)] = o.V
		} else {
			delete(m, string(o.K))
		}
	}
	ks := make([]string, 0, len(m))
	for k := range m {
		ks = append(ks, k)
	}
	sort.Strings(ks)
	out := make([]KV, 0, len(ks))
	for _, k := range ks {
		out = append(out, KV{K: []byte(k), V: m[k]})
	}
	return out
}

func clip(s string, n int) string {
	if len(s) <= n {
		return s
	}
	return s[:n] + "..."
}

func sameKVs(a, b []KV) bool {
	if len(a) != len(b) {
		return false
	}
	for i := range a {
		if !bytes.Equal(a[i].K, b[i].K) || !bytes.Equal(a[i].V, b[i].V) {
			return false
		}
	}
	return true
}

// ExecConcurrent executes a concurrent program under the simulated scheduler.
func ExecConcurrent(p *drv.Plan) *Result {
	res := &Result{Probes: map[string]int{}, Stats: map[string]int{}}
	res.Sample = Render(p.Steps, 400)
	var batches [][]drv.Step
	var flags []int64
	var cur []drv.Step
	rsteps := map[int][]drv.Step{}
	maxR := -1
	view := ""
	for _, s := range p.Steps {
		switch s.Op {
		case "cb.set", "cb.del":
			if len(s.K) == 0 || (s.Op == "cb.set" && s.V == nil) {
				continue
			}
			cur = append(cur, s)
			view = s.Codec
		case "cb.write":
			if len(cur) > 0 {
				batches = append(batches, cur)
				flags = append(flags, s.N)
				cur = nil
			}
		case "cr.snap", "cr.revsnap", "cr.get":
			rid := 0
			if s.Cache != nil && *s.Cache >= 0 && *s.Cache < 3 {
				rid = *s.Cache
			}
			rsteps[rid] = append(rsteps[rid], s)
			if rid > maxR {
				maxR = rid
			}
			view = s.Codec
		}
	}
	if len(batches) == 0 || maxR < 0 {
		return res
	}
	comps, ok := ParseView(view)
	if !ok {
		comps = nil
	}
	mem := dbm.NewMemDB()
	var db corestore.KVStoreWithBatch = mem
	for _, c := range comps {
		db = dbm.NewPrefixDB(db, c)
	}
	// a foreign key on each side of the namespace: never visible, never touched
	_ = mem.Set([]byte{0x01}, []byte("low"))
	_ = mem.Set([]byte{0xfe, 0x01}, []byte("high"))
	st := &concState{states: [][]KV{nil}}
	if len(comps) == 0 {
		st.states[0] = []KV{{K: []byte{0x01}, V: []byte("low")}, {K: []byte{0xfe, 0x01}, V: []byte("high")}}
	}
	for _, b := range batches {
		st.states = append(st.states, applyOps(st.states[len(st.states)-1], b))
	}

	seedR := drv.SubRand(p, "c18-sched")
	sched := sim.NewSched(seedR, 1, seedR.Pick(2, 3, 5), p.Schedule, p.UseSchedule)
	sched.Probe = func() bool { return dbm.VerifLockFree(mem) }
	defer func() { dbm.VerifHooks.Yield = nil }()

	var vios []*drv.Violation
	stop := false
	report := func(s drv.Step, oracle, symptom, class, detail string) {
		if len(vios) < 3 {
			vios = append(vios, &drv.Violation{Prop: "C18", Oracle: oracle, Symptom: symptom, Class: class, Detail: detail, StepID: s.ID})
		}
		stop = true
	}
	site := "MemDB"
	if len(comps) > 0 {
		site = fmt.Sprintf("PrefixDB^%d(MemDB)", len(comps))
	}
	readersLeft := maxR + 1
	offeredInside := 0
	dbm.VerifHooks.Yield = func(point string) {
		offeredInside++
		sched.Yield(point)
	}

	sched.Go("writer", func() {
		for i, ops := range batches {
			if stop {
				break
			}
			b := db.NewBatch()
			for _, o := range ops {
				var err error
				if o.Op == "cb.set" {
					err = b.Set(o.K, o.V)
				} else {
					err = b.Delete(o.K)
				}
				if err != nil {
					report(o, "C18.batch", "error-on-legal-request", "concurrent/"+site, fmt.Sprintf("batch %s: %v", o.Op, err))
				}
			}
			sched.Yield("writer.before-write")
			st.started = i + 1
			var err error
			if flags[i] == 1 {
				err = b.WriteSync()
			} else {
				err = b.Write()
			}
			st.done = i + 1
			if err != nil {
				report(ops[0], "C18.batch", "error-on-legal-request", "concurrent/"+site, fmt.Sprintf("Write of batch %d: %v", i+1, err))
			}
			_ = b.Close()
			sched.Yield("writer.after-write")
		}
		sched.BlockUntil(func() bool { return readersLeft <= 0 })
	})
	for rid := 0; rid <= maxR; rid++ {
		steps := rsteps[rid]
		sched.Go(fmt.Sprintf("reader%d", rid), func() {
			defer func() { readersLeft-- }()
			for _, s := range steps {
				if stop {
					return
				}
				sched.Yield("reader.op")
				lo := st.done
				switch s.Op {
				case "cr.get":
					v, err := db.Get(s.K)
					hi := st.started
					if err != nil {
						report(s, "C18.concurrent", "error-on-legal-request", "get/"+site, err.Error())
						continue
					}
					ok := false
					for j := lo; j <= hi && !ok; j++ {
						var want []byte
						for _, kv := range st.states[j] {
							if bytes.Equal(kv.K, s.K) {
								want = kv.V
							}
						}
						ok = bytes.Equal(v, want)
					}
					if !ok {
						report(s, "C18.concurrent", "wrong-value", "get/"+site, fmt.Sprintf("Get(%s)=%s while batches %d..%d were complete/under way: the value of none of those states", fmtB(s.K), fmtB(v), lo, hi))
					}
					res.Stats["concurrent_gets"]++
				default:
					rev := s.Op == "cr.revsnap"
					var it corestore.Iterator
					var err error
					if rev {
						it, err = db.ReverseIterator(nil, nil)
					} else {
						it, err = db.Iterator(nil, nil)
					}
					if err != nil {
						report(s, "C18.concurrent", "error-on-legal-request", "snapshot/"+site, err.Error())
						continue
					}
					var got []KV
					for ; it.Valid(); it.Next() {
						got = append(got, KV{K: cp(it.Key()), V: cp(it.Value())})
					}
					_ = it.Close()
					hi := st.started
					if rev {
						for i, j := 0, len(got)-1; i < j; i, j = i+1, j-1 {
							got[i], got[j] = got[j], got[i]
						}
					}
					ok := false
					for j := lo; j <= hi && !ok; j++ {
						ok = sameKVs(got, st.states[j])
					}
					if !ok {
						report(s, "C18.batch-atomic", "torn-batch", "snapshot/"+site, fmt.Sprintf("an iteration taken while batches %d..%d were complete/under way yields %d pairs %s: not the contents after any whole number of batches (after %d: %d pairs %s; after %d: %d pairs %s)", lo, hi, len(got), clip(fmtKVs(got), 400), lo, len(st.states[lo]), clip(fmtKVs(st.states[lo]), 300), hi, len(st.states[hi]), clip(fmtKVs(st.states[hi]), 300)))
					}
					if hi > lo {
						res.Probes["snapshot_during_write"]++
					}
					res.Stats["concurrent_snapshots"]++
				}
			}
		})
	}
	problem := sched.Run(30 * time.Second)
	res.Stats["yield_choices"] = len(sched.Rec)
	res.Stats["task_switches"] = sched.Switches
	res.Stats["yields_offered_inside_batch_write"] = offeredInside
	res.Schedule = append([]int{}, sched.Rec...)
	if problem != "" {
		vios = append(vios, &drv.Violation{Prop: "C18", Oracle: "C18.concurrent", Symptom: "deadlock", Class: "concurrent/" + site, Detail: problem})
		res.Tainted = true
	}
	// the foreign keys are untouched
	if len(comps) > 0 && len(vios) == 0 {
		if v, _ := mem.Get([]byte{0x01}); string(v) != "low" {
			vios = append(vios, &drv.Violation{Prop: "C18", Oracle: "C18.prefix-isolation", Symptom: "foreign-key-touched", Class: "concurrent/" + site, Detail: "the key 01 outside the prefix changed"})
		}
	}
	res.Probes["mode.concurrent"]++
	for _, b := range batches {
		if len(b) > 1000 {
			res.Probes["concurrent.large-batch"]++
		}
	}
	res.Violations = vios
	res.NonTrivial = sched.Switches >= 2
	adj := sched.Adjacency()
	for k := range adj {
		res.States = append(res.States, k)
	}
	sort.Strings(res.States)
	var tr drv.Tracer
	tr.Add(fmt.Sprint(sched.Rec), sched.Switches, len(vios), res.Stats["concurrent_snapshots"], res.Stats["concurrent_gets"])
	res.Trace = fmt.Sprintf("conc-%016x", tr.Sum())
	return res
}

// ---------------------------------------------------------------------------
// Blocked-reader mode: what the cooperative scheduler cannot reach.
//
// The scheduler parks tasks at yield points only; an implementation that
// releases and re-takes its lock between two operations of a batch write
// without a yield point in the gap (seed C18-4A: "let the readers in every 1024
// operations") is never parked inside the gap. Real lock semantics reach it:
// at the first yield offer inside a batch write (the lock is held there) the
// harness starts a reader goroutine that asks for a snapshot and waits until
// that goroutine is really blocked on the MemDB's read lock (its stack shows
// sync.RWMutex.RLock in a waiting state) - or has finished, if no lock stood in
// its way. Then the writer goes on. Who runs next is decided by the lock, not by
// timing: if the lock is held until the batch is complete, the reader gets in
// afterwards and sees the whole batch; if it is released in between, the queued
// reader gets in there (sync.RWMutex admits the readers that wait when a writer
// unlocks, before the next writer) and sees a torn batch.

const ModeBlockedReader = "concurrent-blocked"

// GenBlockedReader generates a program of batches, each written with a reader
// queued behind it.
func GenBlockedReader(r *sim.Rand, tier string) *drv.Plan {
	p := GenConcurrent(r, tier)
	p.Mode = ModeBlockedReader
	// reader steps are implicit in this mode: keep the writer's steps only
	var steps []drv.Step
	for _, s := range p.Steps {
		if s.Op == "cb.set" || s.Op == "cb.del" || s.Op == "cb.write" {
			steps = append(steps, s)
		}
	}
	p.Steps = steps
	return p
}

// readerState inspects all goroutine stacks and reports whether the goroutine
// running fn (a function name) is blocked inside sync.RWMutex.RLock.
func blockedInRLock(fn string) bool {
	buf := make([]byte, 1<<18)
	n := runtime.Stack(buf, true)
	for _, sec := range strings.Split(string(buf[:n]), "\n\n") {
		if !strings.Contains(sec, fn) {
			continue
		}
		nl := strings.IndexByte(sec, '\n')
		if nl < 0 {
			continue
		}
		head := sec[:nl]
		if strings.Contains(head, "running") || strings.Contains(head, "runnable") {
			continue
		}
		if strings.Contains(sec, "RWMutex).RLock") {
			return true
		}
	}
	return false
}

func snapshotReader(db corestore.KVStoreWithBatch, rev bool, out chan<- []KV, errc chan<- error) {
	var it corestore.Iterator
	var err error
	if rev {
		it, err = db.ReverseIterator(nil, nil)
	} else {
		it, err = db.Iterator(nil, nil)
	}
	if err != nil {
		errc <- err
		return
	}
	var got []KV
	for ; it.Valid(); it.Next() {
		got = append(got, KV{K: cp(it.Key()), V: cp(it.Value())})
	}
	_ = it.Close()
	if rev {
		for i, j := 0, len(got)-1; i < j; i, j = i+1, j-1 {
			got[i], got[j] = got[j], got[i]
		}
	}
	out <- got
}

// ExecBlockedReader executes a blocked-reader program.
func ExecBlockedReader(p *drv.Plan) *Result {
	res := &Result{Probes: map[string]int{}, Stats: map[string]int{}}
	res.Sample = Render(p.Steps, 400)
	var batches [][]drv.Step
	var flags []int64
	var cur []drv.Step
	view := ""
	for _, s := range p.Steps {
		switch s.Op {
		case "cb.set", "cb.del":
			if len(s.K) == 0 || (s.Op == "cb.set" && s.V == nil) {
				continue
			}
			cur = append(cur, s)
			view = s.Codec
		case "cb.write":
			if len(cur) > 0 {
				batches = append(batches, cur)
				flags = append(flags, s.N)
				cur = nil
			}
		}
	}
	if len(batches) == 0 {
		return res
	}
	comps, ok := ParseView(view)
	if !ok {
		comps = nil
	}
	mem := dbm.NewMemDB()
	var db corestore.KVStoreWithBatch = mem
	for _, c := range comps {
		db = dbm.NewPrefixDB(db, c)
	}
	site := "MemDB"
	if len(comps) > 0 {
		site = fmt.Sprintf("PrefixDB^%d(MemDB)", len(comps))
	}
	state := []KV{}
	var tr drv.Tracer
	defer func() { dbm.VerifHooks.Yield = nil }()
	for i, ops := range batches {
		after := applyOps(state, ops)
		b := db.NewBatch()
		for _, o := range ops {
			if o.Op == "cb.set" {
				_ = b.Set(o.K, o.V)
			} else {
				_ = b.Delete(o.K)
			}
		}
		outc := make(chan []KV, 1)
		errc := make(chan error, 1)
		started := false
		offers := 0
		var got []KV
		finishedEarly := false
		rev := i%2 == 1
		dbm.VerifHooks.Yield = func(point string) {
			offers++
			if started {
				return
			}
			started = true
			go snapshotReader(db, rev, outc, errc)
			// wait until the reader is queued on the lock, or is through
			deadline := time.Now().Add(5 * time.Second)
			for time.Now().Before(deadline) {
				select {
				case got = <-outc:
					finishedEarly = true
					return
				default:
				}
				if blockedInRLock("drvdb.snapshotReader") {
					res.Probes["blocked_reader.queued"]++
					return
				}
				runtime.Gosched()
			}
			res.Probes["blocked_reader.neither-queued-nor-done"]++
		}
		var err error
		if flags[i] == 1 {
			err = b.WriteSync()
		} else {
			err = b.Write()
		}
		dbm.VerifHooks.Yield = nil
		_ = b.Close()
		if err != nil {
			res.Violations = append(res.Violations, &drv.Violation{Prop: "C18", Oracle: "C18.batch", Symptom: "error-on-legal-request", Class: "blocked-reader/" + site, Detail: fmt.Sprintf("Write of batch %d: %v", i+1, err), StepID: ops[0].ID})
			break
		}
		if started && !finishedEarly {
			select {
			case got = <-outc:
			case e := <-errc:
				res.Violations = append(res.Violations, &drv.Violation{Prop: "C18", Oracle: "C18.concurrent", Symptom: "error-on-legal-request", Class: "blocked-reader/" + site, Detail: e.Error(), StepID: ops[0].ID})
			case <-time.After(20 * time.Second):
				res.Violations = append(res.Violations, &drv.Violation{Prop: "C18", Oracle: "C18.concurrent", Symptom: "hang", Class: "blocked-reader/" + site, Detail: fmt.Sprintf("a snapshot requested while batch %d was being written never returned", i+1), StepID: ops[0].ID})
				res.Tainted = true
			}
		}
		if len(res.Violations) > 0 {
			break
		}
		if started {
			res.Stats["blocked_reader_snapshots"]++
			if finishedEarly {
				res.Probes["blocked_reader.through-before-write-ended"]++
			}
			if !sameKVs(got, state) && !sameKVs(got, after) {
				res.Violations = append(res.Violations, &drv.Violation{Prop: "C18", Oracle: "C18.batch-atomic", Symptom: "torn-batch", Class: "blocked-reader/" + site, StepID: ops[0].ID,
					Detail: fmt.Sprintf("a reader queued on the lock while batch %d (%d operations) was being written got %d pairs %s: neither the contents before the batch (%d pairs %s) nor after it (%d pairs %s)", i+1, len(ops), len(got), clip(fmtKVs(got), 300), len(state), clip(fmtKVs(state), 200), len(after), clip(fmtKVs(after), 200))})
				break
			}
		}
		if len(ops) > 1000 {
			res.Probes["concurrent.large-batch"]++
		}
		tr.Add(i, len(ops), offers, len(got))
		state = after
	}
	res.Probes["mode.blocked-reader"]++
	res.NonTrivial = res.Stats["blocked_reader_snapshots"] > 0
	res.Trace = fmt.Sprintf("blk-%016x-%d", tr.Sum(), len(res.Violations))
	return res
}
