package drvdb

import (
	"bytes"

	"verif/drv"
	"verif/sim"
)

// prefix components the views of a run are built from: 0xFF runs, components
// ending in 0xFF (upper bound needs a carry), 0x00, plain bytes.
var prefixPool = [][]byte{
	{0xFF}, {0xFF, 0xFF}, {'p', 0xFF}, {'a'}, {0x00}, {0x00, 0xFF}, {'a', 0x00}, {0xFE, 0xFF}, {'p'}, {0xFF, 0x00}, {'a', 0xFF, 0xFF}, {0xFE},
}

// extra key bytes besides 0x00 and 0xFF: the prefix bytes and their successors.
var alphaPool = []byte{0x01, 'a', 'b', 'p', 'q', 0xFE}

type view struct {
	path  string
	comps [][]byte
	eff   []byte
}

type gen struct {
	r      *sim.Rand
	alpha  []byte
	views  []view
	m      *Model // generator-side copy of the specification, to aim keys and bounds at stored keys
	steps  []drv.Step
	nextB  int64
	live   []int64
	dead   []int64
	weight [nKinds]int
}

const (
	kSet = iota
	kDel
	kGet
	kHas
	kIter
	kBNew
	kBOps
	kBWrite
	kBClose
	kBSize
	kReopen
	kBadKey
	nKinds
)

// Gen builds the program of one run. Everything is drawn from r.
func Gen(r *sim.Rand, tier string) *drv.Plan {
	g := &gen{r: r, m: NewModel(), nextB: 1}
	g.pickViews()
	g.pickAlphabet()
	// swarm: every run re-weights the op kinds
	base := [nKinds]int{kSet: 22, kDel: 8, kGet: 8, kHas: 5, kIter: 26, kBNew: 5, kBOps: 10, kBWrite: 5, kBClose: 2, kBSize: 2, kReopen: 1, kBadKey: 2}
	for k := range base {
		g.weight[k] = base[k]
		switch r.Intn(6) {
		case 0:
			g.weight[k] = base[k] / 3
		case 1:
			g.weight[k] = base[k] * 2
		}
	}
	if r.Chance(1, 3) {
		g.weight[kReopen] = 0
	}
	n := r.Range(40, 90)
	if tier == "thorough" {
		n = r.Range(50, 220)
	}
	for len(g.steps) < n {
		kind := g.pickKind()
		if len(g.steps) < 10 && r.Chance(2, 3) {
			// seed some data first, through every kind of view
			kind = kSet
		}
		g.emit(kind)
	}
	p := &drv.Plan{Engine: "drvdb", Steps: g.steps}
	if !r.Chance(1, 4) {
		p.Mode = ModeSmallBuffers
	}
	return p
}

func (g *gen) pickViews() {
	r := g.r
	g.views = []view{{path: ""}}
	add := func(comps ...[]byte) {
		v := view{path: ViewPath(comps...), comps: comps, eff: effPrefix(comps)}
		for _, o := range g.views {
			if o.path == v.path {
				return
			}
		}
		g.views = append(g.views, v)
	}
	pool := func() []byte { return prefixPool[r.Intn(len(prefixPool))] }
	nv := r.Range(2, 4)
	for tries := 0; len(g.views) < 1+nv && tries < 20; tries++ {
		switch r.Intn(10) {
		case 0, 1, 2, 3, 4:
			add(pool())
		case 5, 6:
			add(pool(), pool())
		case 7:
			// nested under a prefix that is also a view of its own
			if len(g.views) > 1 {
				o := g.views[1+r.Intn(len(g.views)-1)]
				add(append(append([][]byte{}, o.comps...), pool())...)
			} else {
				add(pool(), pool())
			}
		case 8:
			// a single prefix spelling the same namespace as a nested view (aliases)
			if len(g.views) > 1 {
				o := g.views[1+r.Intn(len(g.views)-1)]
				if len(o.comps) > 1 {
					add(o.eff)
				} else if len(o.eff) > 1 {
					add(o.eff[:1], o.eff[1:])
				}
			}
		case 9:
			add(pool(), pool(), pool())
		}
	}
}

func (g *gen) pickAlphabet() {
	r := g.r
	g.alpha = []byte{0x00, 0xFF}
	has := func(b byte) bool { return bytes.IndexByte(g.alpha, b) >= 0 }
	// bytes of the prefixes in play and their successors make neighbours of the namespaces reachable
	for _, v := range g.views[1:] {
		for _, b := range []byte{v.eff[0], v.eff[0] + 1} {
			if !has(b) && len(g.alpha) < 6 && r.Chance(1, 2) {
				g.alpha = append(g.alpha, b)
			}
		}
	}
	for extra := r.Range(1, 3); extra > 0 && len(g.alpha) < 7; extra-- {
		b := alphaPool[r.Intn(len(alphaPool))]
		if !has(b) {
			g.alpha = append(g.alpha, b)
		}
	}
}

func (g *gen) pickKind() int {
	total := 0
	for _, w := range g.weight {
		total += w
	}
	x := g.r.Intn(total)
	for k, w := range g.weight {
		if x < w {
			return k
		}
		x -= w
	}
	return kSet
}

func (g *gen) pickView() view {
	if g.r.Chance(3, 10) {
		return g.views[0]
	}
	return g.views[g.r.Intn(len(g.views))]
}

func (g *gen) randKey() []byte {
	n := 1
	switch x := g.r.Intn(100); {
	case x < 35:
		n = 1
	case x < 75:
		n = 2
	case x < 95:
		n = 3
	default:
		n = 4
	}
	k := make([]byte, n)
	for i := range k {
		k[i] = g.alpha[g.r.Intn(len(g.alpha))]
	}
	return k
}

// key picks a key for view v: random, a stored key or a neighbour of one, or a
// key sitting on the boundary of another view's namespace.
func (g *gen) key(v view) []byte {
	r := g.r
	x := r.Intn(100)
	if x < 30 {
		if vis := g.m.Visible(v.eff); len(vis) > 0 {
			k := cp(vis[r.Intn(len(vis))].K)
			switch y := r.Intn(100); {
			case y < 50:
			case y < 65:
				k = append(k, g.alpha[r.Intn(len(g.alpha))])
			case y < 80:
				if len(k) > 1 {
					k = k[:len(k)-1]
				}
			case y < 90:
				k[len(k)-1]++
			default:
				k[len(k)-1]--
			}
			return k
		}
	}
	if x < 39 {
		// boundary of a namespace nested inside this view
		var cands [][]byte
		for _, o := range g.views[1:] {
			if len(o.eff) > len(v.eff) && bytes.HasPrefix(o.eff, v.eff) {
				rel := o.eff[len(v.eff):]
				cands = append(cands, cp(rel), cat(rel, []byte{g.alpha[r.Intn(len(g.alpha))]}))
				if sc := succ(rel); sc != nil {
					cands = append(cands, sc, cat(sc, []byte{0x00}))
				}
				if len(rel) > 1 {
					cands = append(cands, cp(rel[:len(rel)-1]))
				}
				if last := rel[len(rel)-1]; last > 0 {
					below := cp(rel)
					below[len(below)-1] = last - 1
					cands = append(cands, cat(below, []byte{0xFF}))
				}
			}
		}
		if len(cands) > 0 {
			return cands[r.Intn(len(cands))]
		}
	}
	if x < 50 {
		return [][]byte{{0xFF}, {0xFF, 0xFF}, {0x00}, {0xFF, 0xFF, 0xFF}, {0x00, 0x00}}[r.Intn(5)]
	}
	return g.randKey()
}

func (g *gen) value(id int) []byte {
	switch x := g.r.Intn(100); {
	case x < 12:
		return []byte{}
	case x < 15:
		return nil // rejected
	case x < 30:
		return []byte{0x00}
	}
	// the step id makes every written value distinct, so a lost or reordered write shows
	return []byte{byte(id >> 8), byte(id), g.alpha[g.r.Intn(len(g.alpha))]}
}

// bound picks an iterator bound for view v; empty reports []byte{} (rejected).
func (g *gen) bound(v view) (b []byte, empty bool) {
	r := g.r
	switch x := r.Intn(100); {
	case x < 22:
		return nil, false
	case x < 24:
		return nil, true
	case x < 32:
		return [][]byte{{0x00}, {0xFF, 0xFF, 0xFF, 0xFF}, {0xFF}, {0x00, 0x00}}[r.Intn(4)], false
	}
	return g.key(v), false
}

func (g *gen) add(s drv.Step) {
	s.ID = len(g.steps) + 1
	g.steps = append(g.steps, s)
}

func keyStep(s drv.Step, k []byte, empty bool) drv.Step {
	if len(k) > 0 {
		s.K = drv.Hex(k)
	} else if empty {
		s.Reads = append(s.Reads, FlagKEmpty)
	}
	return s
}

func (g *gen) pickBatch(preferLive bool) (int64, bool) {
	r := g.r
	useDead := len(g.dead) > 0 && (!preferLive || r.Chance(1, 8))
	if useDead {
		return g.dead[r.Intn(len(g.dead))], true
	}
	if len(g.live) == 0 {
		return 0, false
	}
	return g.live[r.Intn(len(g.live))], true
}

func (g *gen) kill(id int64) {
	for i, x := range g.live {
		if x == id {
			g.live = append(g.live[:i:i], g.live[i+1:]...)
			g.dead = append(g.dead, id)
			return
		}
	}
}

func (g *gen) emit(kind int) {
	r := g.r
	id := len(g.steps) + 1
	switch kind {
	case kSet:
		v := g.pickView()
		k, val := g.key(v), g.value(id)
		g.m.Set(v.eff, k, val)
		g.add(drv.Step{Op: OpSet, Codec: v.path, K: drv.Hex(k), V: drv.Hex(val)})
	case kDel:
		v := g.pickView()
		k := g.key(v)
		g.m.Del(v.eff, k)
		g.add(drv.Step{Op: OpDel, Codec: v.path, K: drv.Hex(k)})
	case kGet, kHas:
		v := g.pickView()
		op := OpGet
		if kind == kHas {
			op = OpHas
		}
		g.add(drv.Step{Op: op, Codec: v.path, K: drv.Hex(g.key(v))})
	case kBadKey:
		v := g.pickView()
		op := []string{OpGet, OpHas, OpSet, OpDel}[r.Intn(4)]
		s := drv.Step{Op: op, Codec: v.path}
		if op == OpSet {
			s.V = drv.Hex(g.value(id))
		}
		g.add(keyStep(s, nil, r.Chance(1, 2)))
	case kIter:
		v := g.pickView()
		start, se := g.bound(v)
		end, ee := g.bound(v)
		if start != nil && end != nil && r.Chance(3, 4) && bytes.Compare(start, end) > 0 {
			start, end = end, start // start > end stays in, but is not the common case
		}
		s := drv.Step{Op: OpIter, Codec: v.path}
		s = keyStep(s, start, se)
		if end != nil {
			s.V = drv.Hex(end)
		} else if ee {
			s.V = drv.Hex{}
		}
		if r.Chance(1, 2) {
			s.Reads = append(s.Reads, FlagRev)
		}
		if r.Chance(1, 4) {
			s.N = int64(r.Range(1, 3))
		}
		g.add(s)
	case kBNew:
		if len(g.live) >= 3 {
			g.emit(kBOps)
			return
		}
		v := g.pickView()
		s := drv.Step{Op: OpBNew, Codec: v.path, N: g.nextB}
		if r.Chance(1, 4) {
			s.Reads = []string{FlagSized}
		}
		g.m.batches[g.nextB] = &mbatch{view: v.path, prefix: v.eff}
		g.live = append(g.live, g.nextB)
		g.nextB++
		g.add(s)
	case kBOps:
		bid, ok := g.pickBatch(true)
		if !ok {
			g.emit(kBNew)
			return
		}
		b := g.m.batches[bid]
		var v view
		for _, o := range g.views {
			if o.path == b.view {
				v = o
			}
		}
		var cs []drv.CSPair
		for n := r.Range(1, 5); n > 0; n-- {
			var k []byte
			if len(cs) > 0 && r.Chance(1, 4) {
				k = cp(cs[r.Intn(len(cs))].K) // same key again inside one batch: the later op wins
			} else {
				k = g.key(v)
			}
			if r.Chance(1, 30) {
				k = nil
				if r.Chance(1, 2) {
					k = []byte{}
				}
			}
			c := drv.CSPair{K: drv.Hex(k)}
			if r.Chance(1, 4) {
				c.Del = true
			} else {
				c.V = drv.Hex(g.value(id*8 + n))
			}
			b.BatchOp(c.Del, c.K, c.V)
			cs = append(cs, c)
		}
		g.add(drv.Step{Op: OpBOps, N: bid, CS: cs})
	case kBWrite:
		bid, ok := g.pickBatch(true)
		if !ok {
			g.emit(kBNew)
			return
		}
		if b := g.m.batches[bid]; !b.dead && len(b.ops) == 0 && r.Chance(4, 5) {
			g.emit(kBOps) // writing an empty batch is legal but rarely interesting
			return
		}
		g.m.Write(g.m.batches[bid])
		g.kill(bid)
		s := drv.Step{Op: OpBWrite, N: bid}
		if r.Chance(1, 3) {
			s.Reads = []string{FlagSync}
		}
		g.add(s)
	case kBClose:
		bid, ok := g.pickBatch(r.Chance(1, 2))
		if !ok {
			return
		}
		b := g.m.batches[bid]
		b.dead, b.ops = true, nil
		g.kill(bid)
		g.add(drv.Step{Op: OpBClose, N: bid})
	case kBSize:
		bid, ok := g.pickBatch(true)
		if !ok {
			return
		}
		g.add(drv.Step{Op: OpBSize, N: bid})
	case kReopen:
		g.m.batches = map[int64]*mbatch{}
		g.live, g.dead = nil, nil
		g.add(drv.Step{Op: OpReopen})
	}
}
